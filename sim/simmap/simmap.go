// Package simmap is the map-iteration-order seam. The rewriter turns every
//
//	for k, v := range m { body }
//
// over a map with a string or integer key into
//
//	for _, e := range simmap.Entries(m, site) { if !e.Live() { continue }; k, v := e.K, e.Val(); body }
//
// Entries snapshots the keys, sorts them canonically (so the native, randomised
// order of the Go runtime never reaches the program) and then orders them as the
// simulator decides. Live() keeps the language rule that an entry removed before
// it is reached is not produced. Entries added during the iteration are never
// produced, which the language allows.
package simmap

import (
	"fmt"
	"sort"
)

// Order modes.
const (
	Asc         = 0 // ascending canonical order
	Desc        = 1 // descending canonical order
	PermStable  = 2 // order by hash(seed, site, key): same order every time a site runs
	PermVarying = 3 // order by hash(seed, site, n, key), n = how often this site ran
	PermGlobal  = 4 // order by hash(seed, key): the same key order at every site
)

// Stats counts what the seam actually did in the current run.
type Stats struct {
	Ranges   int // range statements executed
	Ranges2  int // ... over a map with >= 2 keys (order matters)
	Ranges3  int // ... over a map with >= 3 keys
	MaxKeys  int
	Skipped  int   // entries skipped because they were deleted during iteration
	SiteHits []int // per site id (index), ranges with >= 2 keys
}

var (
	mode     int
	seed     uint64
	counters []uint64
	stats    Stats
	track    bool
)

// Configure sets the order for the following run and clears statistics. It is
// called by the driver only, never by instrumented code.
//
//go:norace
func Configure(m int, s uint64, trackStats bool) {
	mode, seed, track = m, s, trackStats
	for i := range counters {
		counters[i] = 0
	}
	stats = Stats{}
}

// Snapshot returns the statistics of the current run.
//
//go:norace
func Snapshot() Stats {
	s := stats
	s.SiteHits = append([]int(nil), stats.SiteHits...)
	return s
}

//go:norace
func note(site uint32, n int) uint64 {
	var c uint64
	if mode == PermVarying {
		for int(site) >= len(counters) {
			counters = append(counters, 0)
		}
		counters[site]++
		c = counters[site]
	}
	if !track {
		return c
	}
	stats.Ranges++
	if n >= 2 {
		stats.Ranges2++
		for int(site) >= len(stats.SiteHits) {
			stats.SiteHits = append(stats.SiteHits, 0)
		}
		stats.SiteHits[site]++
	}
	if n >= 3 {
		stats.Ranges3++
	}
	if n > stats.MaxKeys {
		stats.MaxKeys = n
	}
	return c
}

//go:norace
func noteSkip() {
	if track {
		stats.Skipped++
	}
}

// Entry is one (map, key) pair of a snapshot.
type Entry[M ~map[K]V, K comparable, V any] struct {
	m M
	K K
}

// Live reports whether the key is still present in the map.
func (e Entry[M, K, V]) Live() bool {
	_, ok := e.m[e.K]
	if !ok {
		noteSkip()
	}
	return ok
}

// Val returns the current value for the key.
func (e Entry[M, K, V]) Val() V { return e.m[e.K] }

func mix(h uint64) uint64 {
	h += 0x9e3779b97f4a7c15
	h = (h ^ (h >> 30)) * 0xbf58476d1ce4e5b9
	h = (h ^ (h >> 27)) * 0x94d049bb133111eb
	return h ^ (h >> 31)
}

func hashStr(h uint64, s string) uint64 {
	for i := 0; i < len(s); i++ {
		h = (h ^ uint64(s[i])) * 0x100000001b3
	}
	return mix(h)
}

func keyString(k any) string {
	switch k := k.(type) {
	case string:
		return k
	case int:
		return fmt.Sprintf("%020d", int64(k)+(1<<62))
	case int32:
		return fmt.Sprintf("%020d", int64(k)+(1<<62))
	case int64:
		return fmt.Sprintf("%020d", k+(1<<62))
	case uint64:
		return fmt.Sprintf("%020d", k)
	case uint32:
		return fmt.Sprintf("%020d", k)
	case uint8:
		return fmt.Sprintf("%020d", k)
	default:
		return fmt.Sprint(k)
	}
}

// Entries returns the snapshot of m in the order chosen by the simulator.
func Entries[M ~map[K]V, K comparable, V any](m M, site uint32) []Entry[M, K, V] {
	n := len(m)
	c := note(site, n)
	if n == 0 {
		return nil
	}
	type ks struct {
		s string
		h uint64
		k K
	}
	tmp := make([]ks, 0, n)
	for k := range m {
		tmp = append(tmp, ks{s: keyString(k), k: k})
	}
	md, sd := mode, seed
	switch md {
	case Asc:
		sort.Slice(tmp, func(i, j int) bool { return tmp[i].s < tmp[j].s })
	case Desc:
		sort.Slice(tmp, func(i, j int) bool { return tmp[i].s > tmp[j].s })
	default:
		base := mix(sd)
		if md != PermGlobal {
			base = mix(base ^ uint64(site)*0x9e3779b97f4a7c15)
		}
		if md == PermVarying {
			base = mix(base ^ c)
		}
		for i := range tmp {
			tmp[i].h = hashStr(base, tmp[i].s)
		}
		sort.Slice(tmp, func(i, j int) bool {
			if tmp[i].h != tmp[j].h {
				return tmp[i].h < tmp[j].h
			}
			return tmp[i].s < tmp[j].s
		})
	}
	out := make([]Entry[M, K, V], n)
	for i := range tmp {
		out[i] = Entry[M, K, V]{m: m, K: tmp[i].k}
	}
	return out
}

// Package simsync replaces package sync in instrumented parsers. Pool is the
// simulated pool; Mutex, RWMutex and Once are cooperative versions that work
// under the simrt scheduler (a real mutex would deadlock the simulation when a
// parked client holds it); everything else is re-exported unchanged.
package simsync

import (
	"reflect"
	"sync"
	"unsafe"

	"verifsim/simrt"
)

// Re-exports.
type (
	WaitGroup = sync.WaitGroup
	Map       = sync.Map
	Cond      = sync.Cond
	Locker    = sync.Locker
)

// NewCond mirrors sync.NewCond.
func NewCond(l Locker) *Cond { return sync.NewCond(l) }

// OnceFunc mirrors sync.OnceFunc (cooperatively).
func OnceFunc(f func()) func() {
	var o Once
	return func() { o.Do(f) }
}

// PoolConfig is the behaviour of every simulated pool in the current run.
// All percentages are of Choose(100); 0 is always the ordinary outcome.
type PoolConfig struct {
	NewPct     int `json:"new_pct"`     // Get calls New although items are pooled
	RandomPct  int `json:"random_pct"`  // Get returns a random pooled item instead of the most recent
	FIFOPct    int `json:"fifo_pct"`    // Get returns the oldest pooled item
	DropPct    int `json:"drop_pct"`    // Put drops the item
	ForeignPct int `json:"foreign_pct"` // at a pool operation, another user takes a pooled item, scribbles on it, and later clears and returns it
}

// PoolStats counts what the pools did in the current run.
type PoolStats struct {
	Gets, Puts, News, Recycled, RandomPick, FIFOPick, Dropped int
	ForeignTaken, ForeignReturned, DoublePut, PutNonEmpty     int
}

type item struct {
	v       any
	ptr     uintptr
	foreign bool
	tag     *int
}

// Pool is the simulated sync.Pool.
type Pool struct {
	New func() any

	// The bookkeeping below is harness state shared by all clients. It is only
	// touched from //go:norace functions and only with plain loads and stores:
	// append and copy go through runtime.growslice/slicecopy, which report to
	// the race detector whatever the caller's annotation says.
	buf        [maxPooled]*item
	items      []*item // always buf[:n]
	registered bool
}

const maxPooled = 128

var (
	poolBuf  [8192]*Pool
	pools    []*Pool
	pcfg     PoolConfig
	pstats   PoolStats
	foreignN int
)

// Reset empties every pool and installs the configuration for the next run.
//
//go:norace
func Reset(c PoolConfig) {
	for _, p := range pools {
		for i := range p.buf {
			p.buf[i] = nil
		}
		p.items = p.buf[:0]
	}
	pcfg = c
	pstats = PoolStats{}
	foreignN = 0
}

// Stats returns the statistics of the current run.
//
//go:norace
func Stats() PoolStats { return pstats }

// PooledMaps returns, for inspection by the driver, the number of items pooled.
//
//go:norace
func Pooled() int {
	n := 0
	for _, p := range pools {
		n += len(p.items)
	}
	return n
}

//go:norace
func (p *Pool) register() {
	if !p.registered {
		p.registered = true
		if len(pools) >= len(poolBuf) {
			panic("simsync: more pools than the registry holds; an unregistered pool would keep items across runs")
		}
		poolBuf[len(pools)] = p
		pools = poolBuf[:len(pools)+1]
	}
}

func ptrOf(v any) uintptr {
	rv := reflect.ValueOf(v)
	switch rv.Kind() {
	case reflect.Map, reflect.Pointer, reflect.Slice, reflect.Chan, reflect.Func, reflect.UnsafePointer:
		return rv.Pointer()
	}
	return 0
}

// foreignStep lets the other, simulated users of the pool act.
//
//go:norace
func (p *Pool) foreignStep() {
	// Only the most recently pooled items are looked at: the step runs at every
	// pool operation and must not cost time proportional to the pool size (a
	// parser that loops under a budget pools hundreds of maps).
	lo := len(p.items) - 6
	if lo < 0 {
		lo = 0
	}
	for _, it := range p.items[lo:] {
		if it.foreign {
			// the foreign user finishes: clears the map and puts it back
			if simrt.Choose(2) == 1 {
				clearMap(it.v)
				it.foreign = false
				note(&pstats.ForeignReturned)
			}
			continue
		}
		if pcfg.ForeignPct > 0 && simrt.Choose(100) >= 100-pcfg.ForeignPct {
			it.foreign = true
			scribble(it.v)
			note(&pstats.ForeignTaken)
		}
	}
}

//go:norace
func note(p *int) { *p++ }

func clearMap(v any) {
	rv := reflect.ValueOf(v)
	if rv.Kind() != reflect.Map {
		return
	}
	for _, k := range rv.MapKeys() {
		rv.SetMapIndex(k, reflect.Value{})
	}
}

func scribble(v any) {
	rv := reflect.ValueOf(v)
	if rv.Kind() != reflect.Map || rv.Type().Key().Kind() != reflect.String {
		return
	}
	clearMap(v)
	foreignN++
	val := reflect.ValueOf("foreign-value")
	if !val.Type().AssignableTo(rv.Type().Elem()) {
		return
	}
	rv.SetMapIndex(reflect.ValueOf("~foreign").Convert(rv.Type().Key()), val)
}

// Get mirrors (*sync.Pool).Get.
func (p *Pool) Get() any {
	simrt.Yield(simrt.YPool)
	it := p.take()
	if it != nil {
		// the one edge a real pool guarantees: Put(x) happens before the Get that returns x
		simrt.RaceAcquire(unsafe.Pointer(it.tag))
		return it.v
	}
	if p.New == nil {
		return nil
	}
	return p.New()
}

// take picks the pooled item to hand out, or nil for New. All pool
// bookkeeping is harness state and hidden from the race detector.
//
//go:norace
func (p *Pool) take() *item {
	p.register()
	note(&pstats.Gets)
	if pcfg.ForeignPct > 0 {
		p.foreignStep()
	}
	var freeBuf [maxPooled]int
	free := freeBuf[:0]
	for i, it := range p.items {
		if !it.foreign {
			freeBuf[len(free)] = i
			free = freeBuf[:len(free)+1]
		}
	}
	if len(free) > 0 && !(pcfg.NewPct > 0 && simrt.Choose(100) >= 100-pcfg.NewPct) {
		idx := free[len(free)-1] // most recent: what a per-P private slot gives
		if len(free) > 1 {
			if pcfg.RandomPct > 0 && simrt.Choose(100) >= 100-pcfg.RandomPct {
				idx = free[simrt.Choose(len(free))]
				note(&pstats.RandomPick)
			} else if pcfg.FIFOPct > 0 && simrt.Choose(100) >= 100-pcfg.FIFOPct {
				idx = free[0]
				note(&pstats.FIFOPick)
			}
		}
		it := p.items[idx]
		for k := idx; k+1 < len(p.items); k++ {
			p.buf[k] = p.buf[k+1]
		}
		p.buf[len(p.items)-1] = nil
		p.items = p.buf[:len(p.items)-1]
		note(&pstats.Recycled)
		return it
	}
	note(&pstats.News)
	return nil
}

// Put mirrors (*sync.Pool).Put.
func (p *Pool) Put(x any) {
	simrt.Yield(simrt.YPool)
	if x == nil {
		return
	}
	nonEmpty := false
	if rv := reflect.ValueOf(x); rv.Kind() == reflect.Map && rv.Len() > 0 {
		nonEmpty = true
	}
	tag := new(int)
	simrt.RaceRelease(unsafe.Pointer(tag))
	p.store(x, tag, nonEmpty)
}

//go:norace
func (p *Pool) store(x any, tag *int, nonEmpty bool) {
	p.register()
	note(&pstats.Puts)
	if pcfg.ForeignPct > 0 {
		p.foreignStep()
	}
	ptr := ptrOf(x)
	if ptr != 0 {
		for _, it := range p.items {
			if it.ptr == ptr {
				note(&pstats.DoublePut)
			}
		}
	}
	if nonEmpty {
		note(&pstats.PutNonEmpty)
	}
	if pcfg.DropPct > 0 && simrt.Choose(100) >= 100-pcfg.DropPct {
		note(&pstats.Dropped)
		return
	}
	if len(p.items) >= maxPooled {
		note(&pstats.Dropped)
		return
	}
	p.buf[len(p.items)] = &item{v: x, ptr: ptr, tag: tag}
	p.items = p.buf[:len(p.items)+1]
}

// ---------------------------------------------------------------------------
// cooperative locks

// Mutex is a cooperative mutex.
type Mutex struct {
	locked bool
	tag    int
}

// Lock mirrors (*sync.Mutex).Lock.
func (m *Mutex) Lock() {
	simrt.Yield(simrt.YLock)
	for m.isLocked() {
		if !simrt.Block() {
			if !m.isLocked() {
				break
			}
			panic("simsync: deadlock: every client is blocked on a lock")
		}
	}
	m.set(true)
	simrt.RaceAcquire(unsafe.Pointer(&m.tag))
}

// TryLock mirrors (*sync.Mutex).TryLock.
func (m *Mutex) TryLock() bool {
	if m.isLocked() {
		return false
	}
	m.set(true)
	simrt.RaceAcquire(unsafe.Pointer(&m.tag))
	return true
}

// Unlock mirrors (*sync.Mutex).Unlock.
func (m *Mutex) Unlock() {
	if !m.isLocked() {
		panic("sync: unlock of unlocked mutex")
	}
	simrt.RaceRelease(unsafe.Pointer(&m.tag))
	m.set(false)
	simrt.UnblockAll()
	simrt.Yield(simrt.YLock)
}

//go:norace
func (m *Mutex) isLocked() bool { return m.locked }

//go:norace
func (m *Mutex) set(b bool) { m.locked = b }

// RWMutex is a cooperative reader/writer lock.
type RWMutex struct {
	w       bool
	readers int
	tag     int
	rtag    int
}

//go:norace
func (m *RWMutex) state() (bool, int) { return m.w, m.readers }

//go:norace
func (m *RWMutex) setW(b bool) { m.w = b }

//go:norace
func (m *RWMutex) addR(d int) { m.readers += d }

// Lock mirrors (*sync.RWMutex).Lock.
func (m *RWMutex) Lock() {
	simrt.Yield(simrt.YLock)
	for {
		w, r := m.state()
		if !w && r == 0 {
			break
		}
		if !simrt.Block() {
			panic("simsync: deadlock: every client is blocked on a lock")
		}
	}
	m.setW(true)
	simrt.RaceAcquire(unsafe.Pointer(&m.tag))
	simrt.RaceAcquire(unsafe.Pointer(&m.rtag))
}

// Unlock mirrors (*sync.RWMutex).Unlock.
func (m *RWMutex) Unlock() {
	simrt.RaceRelease(unsafe.Pointer(&m.tag))
	m.setW(false)
	simrt.UnblockAll()
	simrt.Yield(simrt.YLock)
}

// RLock mirrors (*sync.RWMutex).RLock.
func (m *RWMutex) RLock() {
	simrt.Yield(simrt.YLock)
	for {
		w, _ := m.state()
		if !w {
			break
		}
		if !simrt.Block() {
			panic("simsync: deadlock: every client is blocked on a lock")
		}
	}
	m.addR(1)
	simrt.RaceAcquire(unsafe.Pointer(&m.tag))
}

// RUnlock mirrors (*sync.RWMutex).RUnlock.
func (m *RWMutex) RUnlock() {
	simrt.RaceRelease(unsafe.Pointer(&m.rtag))
	m.addR(-1)
	simrt.UnblockAll()
	simrt.Yield(simrt.YLock)
}

// RLocker mirrors (*sync.RWMutex).RLocker.
func (m *RWMutex) RLocker() Locker { return rlocker{m} }

type rlocker struct{ m *RWMutex }

func (r rlocker) Lock()   { r.m.RLock() }
func (r rlocker) Unlock() { r.m.RUnlock() }

// Once is a cooperative sync.Once.
type Once struct {
	m    Mutex
	done bool
	tag  int
}

//go:norace
func (o *Once) isDone() bool { return o.done }

//go:norace
func (o *Once) setDone() { o.done = true }

// Do mirrors (*sync.Once).Do.
func (o *Once) Do(f func()) {
	if o.isDone() {
		simrt.RaceAcquire(unsafe.Pointer(&o.tag))
		return
	}
	o.m.Lock()
	defer o.m.Unlock()
	if !o.isDone() {
		defer func() {
			simrt.RaceRelease(unsafe.Pointer(&o.tag))
			o.setDone()
		}()
		f()
	}
}

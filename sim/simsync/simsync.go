// Package simsync replaces package sync in instrumented parsers. Pool is the
// simulated pool; Mutex, RWMutex and Once are cooperative versions that work
// under the simrt scheduler (a real mutex would deadlock the simulation when a
// parked client holds it); everything else is re-exported unchanged.
package simsync

import (
	"reflect"
	"sync"
	"unsafe"

	"verifsim/simrt"
)

// Re-exports.
type (
	WaitGroup = sync.WaitGroup
	Map       = sync.Map
	Cond      = sync.Cond
	Locker    = sync.Locker
)

// NewCond mirrors sync.NewCond.
func NewCond(l Locker) *Cond { return sync.NewCond(l) }

// OnceFunc mirrors sync.OnceFunc (cooperatively).
func OnceFunc(f func()) func() {
	var o Once
	return func() { o.Do(f) }
}

// PoolConfig is the behaviour of every simulated pool in the current run.
// All percentages are of Choose(100); 0 is always the ordinary outcome.
type PoolConfig struct {
	NewPct     int `json:"new_pct"`     // Get calls New although items are pooled
	RandomPct  int `json:"random_pct"`  // Get returns a random pooled item instead of the most recent
	FIFOPct    int `json:"fifo_pct"`    // Get returns the oldest pooled item
	DropPct    int `json:"drop_pct"`    // Put drops the item
	ForeignPct int `json:"foreign_pct"` // at a pool operation, another user takes a pooled item, scribbles on it, and later clears and returns it
}

// PoolStats counts what the pools did in the current run.
type PoolStats struct {
	Gets, Puts, News, Recycled, RandomPick, FIFOPick, Dropped int
	ForeignTaken, ForeignReturned, DoublePut, PutNonEmpty     int
}

type item struct {
	v       any
	ptr     uintptr
	foreign bool
	tag     *int
}

// Pool is the simulated sync.Pool.
type Pool struct {
	New func() any

	items      []*item
	registered bool
}

var (
	pools    []*Pool
	pcfg     PoolConfig
	pstats   PoolStats
	foreignN int
)

// Reset empties every pool and installs the configuration for the next run.
//
//go:norace
func Reset(c PoolConfig) {
	for _, p := range pools {
		p.items = nil
	}
	pcfg = c
	pstats = PoolStats{}
	foreignN = 0
}

// Stats returns the statistics of the current run.
//
//go:norace
func Stats() PoolStats { return pstats }

// PooledMaps returns, for inspection by the driver, the number of items pooled.
//
//go:norace
func Pooled() int {
	n := 0
	for _, p := range pools {
		n += len(p.items)
	}
	return n
}

//go:norace
func (p *Pool) register() {
	if !p.registered {
		p.registered = true
		pools = append(pools, p)
	}
}

func ptrOf(v any) uintptr {
	rv := reflect.ValueOf(v)
	switch rv.Kind() {
	case reflect.Map, reflect.Pointer, reflect.Slice, reflect.Chan, reflect.Func, reflect.UnsafePointer:
		return rv.Pointer()
	}
	return 0
}

// foreignStep lets the other, simulated users of the pool act.
func (p *Pool) foreignStep() {
	for _, it := range p.items {
		if it.foreign {
			// the foreign user finishes: clears the map and puts it back
			if simrt.Choose(2) == 1 {
				clearMap(it.v)
				it.foreign = false
				note(&pstats.ForeignReturned)
			}
			continue
		}
		if pcfg.ForeignPct > 0 && simrt.Choose(100) >= 100-pcfg.ForeignPct {
			it.foreign = true
			scribble(it.v)
			note(&pstats.ForeignTaken)
		}
	}
}

//go:norace
func note(p *int) { *p++ }

func clearMap(v any) {
	rv := reflect.ValueOf(v)
	if rv.Kind() != reflect.Map {
		return
	}
	for _, k := range rv.MapKeys() {
		rv.SetMapIndex(k, reflect.Value{})
	}
}

func scribble(v any) {
	rv := reflect.ValueOf(v)
	if rv.Kind() != reflect.Map || rv.Type().Key().Kind() != reflect.String {
		return
	}
	clearMap(v)
	foreignN++
	val := reflect.ValueOf("foreign-value")
	if !val.Type().AssignableTo(rv.Type().Elem()) {
		return
	}
	rv.SetMapIndex(reflect.ValueOf("~foreign").Convert(rv.Type().Key()), val)
}

// Get mirrors (*sync.Pool).Get.
func (p *Pool) Get() any {
	p.register()
	simrt.Yield(simrt.YPool)
	note(&pstats.Gets)
	p.foreignStep()
	var free []int
	for i, it := range p.items {
		if !it.foreign {
			free = append(free, i)
		}
	}
	if len(free) > 0 && !(pcfg.NewPct > 0 && simrt.Choose(100) >= 100-pcfg.NewPct) {
		idx := free[len(free)-1] // most recent: what a per-P private slot gives
		if len(free) > 1 {
			if pcfg.RandomPct > 0 && simrt.Choose(100) >= 100-pcfg.RandomPct {
				idx = free[simrt.Choose(len(free))]
				note(&pstats.RandomPick)
			} else if pcfg.FIFOPct > 0 && simrt.Choose(100) >= 100-pcfg.FIFOPct {
				idx = free[0]
				note(&pstats.FIFOPick)
			}
		}
		it := p.items[idx]
		p.items = append(p.items[:idx:idx], p.items[idx+1:]...)
		note(&pstats.Recycled)
		// the one edge a real pool guarantees: Put(x) happens before the Get that returns x
		simrt.RaceAcquire(unsafe.Pointer(it.tag))
		return it.v
	}
	note(&pstats.News)
	if p.New == nil {
		return nil
	}
	return p.New()
}

// Put mirrors (*sync.Pool).Put.
func (p *Pool) Put(x any) {
	p.register()
	simrt.Yield(simrt.YPool)
	note(&pstats.Puts)
	if x == nil {
		return
	}
	p.foreignStep()
	ptr := ptrOf(x)
	if ptr != 0 {
		for _, it := range p.items {
			if it.ptr == ptr {
				note(&pstats.DoublePut)
			}
		}
	}
	if rv := reflect.ValueOf(x); rv.Kind() == reflect.Map && rv.Len() > 0 {
		note(&pstats.PutNonEmpty)
	}
	if pcfg.DropPct > 0 && simrt.Choose(100) >= 100-pcfg.DropPct {
		note(&pstats.Dropped)
		return
	}
	it := &item{v: x, ptr: ptr, tag: new(int)}
	simrt.RaceRelease(unsafe.Pointer(it.tag))
	p.items = append(p.items, it)
}

// ---------------------------------------------------------------------------
// cooperative locks

// Mutex is a cooperative mutex.
type Mutex struct {
	locked bool
	tag    int
}

// Lock mirrors (*sync.Mutex).Lock.
func (m *Mutex) Lock() {
	simrt.Yield(simrt.YLock)
	for m.isLocked() {
		if !simrt.Block() {
			if !m.isLocked() {
				break
			}
			panic("simsync: deadlock: every client is blocked on a lock")
		}
	}
	m.set(true)
	simrt.RaceAcquire(unsafe.Pointer(&m.tag))
}

// TryLock mirrors (*sync.Mutex).TryLock.
func (m *Mutex) TryLock() bool {
	if m.isLocked() {
		return false
	}
	m.set(true)
	simrt.RaceAcquire(unsafe.Pointer(&m.tag))
	return true
}

// Unlock mirrors (*sync.Mutex).Unlock.
func (m *Mutex) Unlock() {
	if !m.isLocked() {
		panic("sync: unlock of unlocked mutex")
	}
	simrt.RaceRelease(unsafe.Pointer(&m.tag))
	m.set(false)
	simrt.UnblockAll()
	simrt.Yield(simrt.YLock)
}

//go:norace
func (m *Mutex) isLocked() bool { return m.locked }

//go:norace
func (m *Mutex) set(b bool) { m.locked = b }

// RWMutex is a cooperative reader/writer lock.
type RWMutex struct {
	w       bool
	readers int
	tag     int
	rtag    int
}

//go:norace
func (m *RWMutex) state() (bool, int) { return m.w, m.readers }

//go:norace
func (m *RWMutex) setW(b bool) { m.w = b }

//go:norace
func (m *RWMutex) addR(d int) { m.readers += d }

// Lock mirrors (*sync.RWMutex).Lock.
func (m *RWMutex) Lock() {
	simrt.Yield(simrt.YLock)
	for {
		w, r := m.state()
		if !w && r == 0 {
			break
		}
		if !simrt.Block() {
			panic("simsync: deadlock: every client is blocked on a lock")
		}
	}
	m.setW(true)
	simrt.RaceAcquire(unsafe.Pointer(&m.tag))
	simrt.RaceAcquire(unsafe.Pointer(&m.rtag))
}

// Unlock mirrors (*sync.RWMutex).Unlock.
func (m *RWMutex) Unlock() {
	simrt.RaceRelease(unsafe.Pointer(&m.tag))
	m.setW(false)
	simrt.UnblockAll()
	simrt.Yield(simrt.YLock)
}

// RLock mirrors (*sync.RWMutex).RLock.
func (m *RWMutex) RLock() {
	simrt.Yield(simrt.YLock)
	for {
		w, _ := m.state()
		if !w {
			break
		}
		if !simrt.Block() {
			panic("simsync: deadlock: every client is blocked on a lock")
		}
	}
	m.addR(1)
	simrt.RaceAcquire(unsafe.Pointer(&m.tag))
}

// RUnlock mirrors (*sync.RWMutex).RUnlock.
func (m *RWMutex) RUnlock() {
	simrt.RaceRelease(unsafe.Pointer(&m.rtag))
	m.addR(-1)
	simrt.UnblockAll()
	simrt.Yield(simrt.YLock)
}

// RLocker mirrors (*sync.RWMutex).RLocker.
func (m *RWMutex) RLocker() Locker { return rlocker{m} }

type rlocker struct{ m *RWMutex }

func (r rlocker) Lock()   { r.m.RLock() }
func (r rlocker) Unlock() { r.m.RUnlock() }

// Once is a cooperative sync.Once.
type Once struct {
	m    Mutex
	done bool
	tag  int
}

//go:norace
func (o *Once) isDone() bool { return o.done }

//go:norace
func (o *Once) setDone() { o.done = true }

// Do mirrors (*sync.Once).Do.
func (o *Once) Do(f func()) {
	if o.isDone() {
		simrt.RaceAcquire(unsafe.Pointer(&o.tag))
		return
	}
	o.m.Lock()
	defer o.m.Unlock()
	if !o.isDone() {
		defer func() {
			simrt.RaceRelease(unsafe.Pointer(&o.tag))
			o.setDone()
		}()
		f()
	}
}

//go:build !race

package simrt

import "unsafe"

// RaceEnabled reports whether this binary was built with -race.
const RaceEnabled = false

func handoff(ch chan struct{}) { ch <- struct{}{} }
func park(ch chan struct{})    { <-ch }
func release(p *int)           {}
func acquire(p *int)           {}

// RaceRelease / RaceAcquire are no-ops without the race detector.
func RaceRelease(p unsafe.Pointer) {}
func RaceAcquire(p unsafe.Pointer) {}

//go:build race

package simrt

import (
	"runtime"
	"unsafe"
)

// RaceEnabled reports whether this binary was built with -race.
const RaceEnabled = true

// handoff and park move the processor between goroutines without telling the
// race detector: synchronisation events of the scheduler are ignored
// (RaceDisable), memory accesses of the code under test are still recorded.
//
//go:norace
func handoff(ch chan struct{}) {
	runtime.RaceDisable()
	ch <- struct{}{}
	runtime.RaceEnable()
}

//go:norace
func park(ch chan struct{}) {
	runtime.RaceDisable()
	<-ch
	runtime.RaceEnable()
}

func release(p *int) { runtime.RaceReleaseMerge(unsafe.Pointer(p)) }
func acquire(p *int) { runtime.RaceAcquire(unsafe.Pointer(p)) }

// RaceRelease / RaceAcquire expose exact happens-before edges to the
// simulated synchronisation objects (pool items, mutexes).
func RaceRelease(p unsafe.Pointer) { runtime.RaceReleaseMerge(p) }
func RaceAcquire(p unsafe.Pointer) { runtime.RaceAcquire(p) }

// Package simrt is the run-time of the parser world: the single source of
// simulator decisions (Choose), the step counter inserted into the generated
// parser (Step), and the cooperative scheduler that decides which client
// goroutine runs.
//
// Every function that touches simulator state is //go:norace and uses plain
// slices only, so that the harness never creates a happens-before edge between
// clients and never trips the race detector itself.
package simrt

// ---------------------------------------------------------------------------
// choices

var (
	chReplay  []int // choices to replay; exhausted => 0
	chPos     int
	chLog     []int
	chState   uint64
	chRecord  bool
	chReplayM bool
)

// SetSeed makes Choose draw from a splitmix64 stream and record the draws.
//
//go:norace
func SetSeed(seed uint64) {
	chState = seed
	chReplayM = false
	chReplay = nil
	chPos = 0
	if chLog == nil {
		chLog = make([]int, 0, 1<<18)
	}
	chLog = chLog[:0]
	chRecord = true
}

// SetReplay makes Choose return the given list, then zeros.
//
//go:norace
func SetReplay(list []int) {
	chReplayM = true
	chReplay = list
	chPos = 0
	if chLog == nil {
		chLog = make([]int, 0, 1<<18)
	}
	chLog = chLog[:0]
	chRecord = true
}

// Choices returns a copy of the choices made since SetSeed/SetReplay.
//
//go:norace
func Choices() []int {
	out := make([]int, len(chLog))
	copy(out, chLog)
	return out
}

// Choose returns a value in [0, n). 0 is always the most ordinary choice.
//
//go:norace
func Choose(n int) int {
	if n <= 1 {
		return 0
	}
	var v int
	if chReplayM {
		if chPos < len(chReplay) {
			v = chReplay[chPos]
			if v >= n || v < 0 {
				v = 0
			}
		}
		chPos++
	} else {
		chState += 0x9e3779b97f4a7c15
		z := chState
		z = (z ^ (z >> 30)) * 0xbf58476d1ce4e5b9
		z = (z ^ (z >> 27)) * 0x94d049bb133111eb
		z ^= z >> 31
		v = int(z % uint64(n))
	}
	if chRecord && len(chLog) < cap(chLog) {
		// plain store into preallocated space: append would go through
		// runtime.growslice, which reports to the race detector
		chLog = chLog[:len(chLog)+1]
		chLog[len(chLog)-1] = v
	}
	return v
}

// ---------------------------------------------------------------------------
// clients, steps, scheduling

// Abort is the panic value used to stop a run that exceeded its step cap.
type Abort struct{ Steps int64 }

func (a Abort) Error() string { return "simrt: step cap exceeded" }

// Client is one simulated caller goroutine.
type Client struct {
	ID       int
	Steps    int64
	Cap      int64
	Aborted  bool
	wake     chan struct{}
	done     bool
	blocked  bool
	prio     int
	Switches int
	Tag      uintptr // address used for the client->driver hand-over edge
	tagCell  *int
	local    any // what the running client's glue wants code blocks to find (see SetLocal)
}

// SetLocal stores a value with the client that is running now; Local gives it
// back to code called by that client (the simulation context of a Parse call
// that is made without a GlobalStore option).
//
//go:norace
func SetLocal(v any) {
	if cur != nil {
		cur.local = v
	}
}

// Local returns what SetLocal stored for the running client.
//
//go:norace
func Local() any {
	if cur == nil {
		return nil
	}
	return cur.local
}

// Strategy kinds.
const (
	StratNone   = 0 // single client: never yield
	StratRandom = 1 // switch with probability 1/SwitchOneIn at every yield point
	StratPCT    = 2 // priorities with change points
)

// SchedConfig is the per-run scheduling policy.
type SchedConfig struct {
	Strategy     int   `json:"strategy"`
	SwitchOneIn  int   `json:"switch_one_in"`
	ChangePoints []int `json:"change_points"` // global yield counts at which the running client is demoted (PCT)
}

var (
	cur      *Client
	clients  []*Client
	cfg      SchedConfig
	yields   int64
	mainWake chan struct{}
	deadlock bool
	trace    []int32 // (client<<8 | kind) at interaction yields
	traceOn  bool
	solo     Client
)

// Yield kinds (only the interaction kinds are traced).
const (
	YStep   = 0
	YPool   = 1
	YKernel = 2
	YEntry  = 3
	YExit   = 4
	YLock   = 5
	YAtomic = 6
)

// Solo prepares a single-client run with the given step cap and returns the client.
//
//go:norace
func Solo(stepCap int64) *Client {
	solo = Client{Cap: stepCap}
	cur = &solo
	clients = clients[:0]
	cfg = SchedConfig{}
	yields = 0
	deadlock = false
	trace = trace[:0]
	return cur
}

// Current returns the running client.
//
//go:norace
func Current() *Client { return cur }

// Step is inserted at every function entry and loop head of the generated
// parser: it counts, enforces the cap and is a scheduling point.
//
//go:norace
func Step() {
	c := cur
	if c == nil {
		return
	}
	c.Steps++
	if c.Steps > c.Cap {
		c.Aborted = true
		panic(Abort{Steps: c.Steps})
	}
	if cfg.Strategy != StratNone {
		yield(YStep)
	}
	if StepHook != nil {
		StepHook()
	}
}

// Charge adds n steps of logical time to the running client (waiting costs
// time too: a task polling a channel that never delivers must run into the
// step cap, not into the wall-clock watchdog).
//
//go:norace
func Charge(n int64) {
	c := cur
	if c == nil {
		return
	}
	c.Steps += n
	if c.Steps > c.Cap {
		c.Aborted = true
		panic(Abort{Steps: c.Steps})
	}
}

// StepHook, when set (tool world only), is called at every instrumentation
// step: the task scheduler of package simtask preempts there.
var StepHook func()

// Yield is a scheduling point of the given kind.
//
//go:norace
func Yield(kind int) {
	if cur == nil || cfg.Strategy == StratNone {
		return
	}
	yield(kind)
}

//go:norace
func runnable(except *Client) []*Client {
	var r []*Client
	for _, c := range clients {
		if !c.done && !c.blocked && c != except {
			r = append(r, c)
		}
	}
	return r
}

//go:norace
func yield(kind int) {
	c := cur
	yields++
	if traceOn && kind != YStep && len(trace) < cap(trace) {
		trace = trace[:len(trace)+1]
		trace[len(trace)-1] = int32(c.ID<<8 | kind)
	}
	var next *Client
	switch cfg.Strategy {
	case StratRandom:
		n := cfg.SwitchOneIn
		if n < 1 {
			n = 1
		}
		// 0 = stay
		if Choose(n) != n-1 {
			return
		}
		others := runnable(c)
		if len(others) == 0 {
			return
		}
		next = others[Choose(len(others))]
	case StratPCT:
		demote := false
		for _, cp := range cfg.ChangePoints {
			if int64(cp) == yields {
				demote = true
			}
		}
		if !demote {
			return
		}
		min := c.prio
		for _, o := range clients {
			if o.prio < min {
				min = o.prio
			}
		}
		c.prio = min - 1
		next = highest(c)
		if next == nil {
			return
		}
	default:
		return
	}
	switchTo(c, next)
}

//go:norace
func highest(except *Client) *Client {
	var best *Client
	for _, o := range clients {
		if o.done || o.blocked || o == except {
			continue
		}
		if best == nil || o.prio > best.prio {
			best = o
		}
	}
	return best
}

// switchTo hands the processor from c to next and parks c.
//
//go:norace
func switchTo(c, next *Client) {
	c.Switches++
	cur = next
	handoff(next.wake)
	park(c.wake)
	// when we get here somebody made us current again
}

// Block parks the running client until Unblock; used by the simulated mutex.
// It returns false if every client is blocked (deadlock).
//
//go:norace
func Block() bool {
	c := cur
	if c == nil || cfg.Strategy == StratNone {
		return false
	}
	c.blocked = true
	next := highest(c)
	if cfg.Strategy == StratRandom {
		if r := runnable(c); len(r) > 0 {
			next = r[Choose(len(r))]
		}
	}
	if next == nil {
		c.blocked = false
		deadlock = true
		return false
	}
	switchTo(c, next)
	return true
}

// SwitchAway hands the processor to another runnable client, if there is one:
// what a client does while it waits for something that only another client
// can bring about (a channel operation that cannot proceed yet).
//
//go:norace
func SwitchAway() {
	c := cur
	if c == nil || cfg.Strategy == StratNone {
		return
	}
	yields++
	others := runnable(c)
	if len(others) == 0 {
		return
	}
	next := highest(c)
	if cfg.Strategy == StratRandom || next == nil {
		next = others[Choose(len(others))]
	}
	switchTo(c, next)
}

// UnblockAll marks every blocked client runnable again (they re-test their
// condition when scheduled).
//
//go:norace
func UnblockAll() {
	for _, c := range clients {
		c.blocked = false
	}
}

// RunClients runs the given bodies as clients under the scheduler and returns
// when all are done. bodies[i] runs on its own goroutine; exactly one
// goroutine runs at a time.
func RunClients(sc SchedConfig, stepCap int64, bodies []func(c *Client)) (cl []*Client, dead bool) {
	setup(sc, stepCap, len(bodies))
	for i := range bodies {
		c := clients[i]
		body := bodies[i]
		go clientMain(c, body)
	}
	// start the first client and wait for the end
	first := pickFirst()
	startFirst(first)
	waitAll()
	return clients, deadlock
}

//go:norace
func setup(sc SchedConfig, stepCap int64, n int) {
	cfg = sc
	if cfg.Strategy == StratNone {
		cfg.Strategy = StratRandom
		cfg.SwitchOneIn = 1 << 30
	}
	clients = make([]*Client, n)
	for i := range clients {
		cell := new(int)
		clients[i] = &Client{ID: i, Cap: stepCap, wake: make(chan struct{}, 1), prio: 0, tagCell: cell}
	}
	// PCT: random distinct initial priorities
	if cfg.Strategy == StratPCT {
		for i := range clients {
			clients[i].prio = 1000 + Choose(1000)*8 + i
		}
	}
	yields = 0
	deadlock = false
	if trace == nil {
		trace = make([]int32, 0, 1<<16)
	}
	trace = trace[:0]
	mainWake = make(chan struct{}, 1)
	cur = nil
}

//go:norace
func pickFirst() *Client {
	if cfg.Strategy == StratPCT {
		return highest(nil)
	}
	return clients[Choose(len(clients))]
}

//go:norace
func startFirst(c *Client) {
	cur = c
	handoff(c.wake)
}

//go:norace
func waitAll() {
	park(mainWake)
}

func clientMain(c *Client, body func(c *Client)) {
	park(c.wake)
	body(c)
	finish(c)
}

//go:norace
func finish(c *Client) {
	c.done = true
	release(c.tagCell)
	// wake blocked clients: their condition may hold now
	for _, o := range clients {
		o.blocked = false
	}
	next := highest(c)
	if cfg.Strategy == StratRandom {
		if r := runnable(c); len(r) > 0 {
			next = r[Choose(len(r))]
		}
	}
	if next == nil {
		// blocked clients with nobody to wake them: deadlock
		for _, o := range clients {
			if !o.done {
				deadlock = true
			}
		}
		cur = nil
		handoff(mainWake)
		return
	}
	cur = next
	handoff(next.wake)
}

// JoinClient creates the happens-before edge from the end of client c to the
// caller (the driver reading that client's results).
func JoinClient(c *Client) { acquire(c.tagCell) }

// TraceOn enables recording of the interaction trace.
//
//go:norace
func TraceOn(on bool) { traceOn = on }

// Trace returns the interaction trace (client<<8|kind) of the last run.
//
//go:norace
func Trace() []int32 {
	out := make([]int32, len(trace))
	copy(out, trace)
	return out
}

// Yields returns the number of scheduling points of the last run.
//
//go:norace
func Yields() int64 { return yields }

// ---------------------------------------------------------------------------
// debug output sink: fmt.Print* calls of the generated parser (Debug(true))
// are redirected here so that they neither reach the driver's protocol stream
// nor share a buffer between clients.

var printed int64

// Printf discards debug output, counting it.
//
//go:norace
func Printf(format string, a ...any) (int, error) { printed++; return 0, nil }

// Println discards debug output, counting it.
//
//go:norace
func Println(a ...any) (int, error) { printed++; return 0, nil }

// Print discards debug output, counting it.
//
//go:norace
func Print(a ...any) (int, error) { printed++; return 0, nil }

// Printed returns the number of debug print calls so far.
//
//go:norace
func Printed() int64 { return printed }

// Nested runs f (a re-entrant parse made by a code block) with its own step
// budget; its steps are not charged to the enclosing run.
//
//go:norace
func nestedEnter(cap int64) (c *Client, steps, oldCap int64, ab bool) {
	c = cur
	if c == nil {
		return nil, 0, 0, false
	}
	steps, oldCap, ab = c.Steps, c.Cap, c.Aborted
	c.Steps, c.Cap = 0, cap
	return
}

//go:norace
func nestedLeave(c *Client, steps, oldCap int64, ab bool) bool {
	if c == nil {
		return false
	}
	over := c.Aborted && !ab
	c.Steps, c.Cap, c.Aborted = steps, oldCap, ab
	return over
}

// Nested runs f under a separate step cap and reports whether f exceeded it.
func Nested(cap int64, f func()) (exceeded bool) {
	c, st, oc, ab := nestedEnter(cap)
	defer func() {
		recover()
		exceeded = nestedLeave(c, st, oc, ab)
	}()
	f()
	return
}

// Sink stands in for os.Stdout / os.Stderr inside instrumented parsers: what
// is written is discarded and counted.
type Sink struct{ name string }

// Stdout and Stderr replace os.Stdout and os.Stderr in instrumented parsers.
var (
	Stdout = &Sink{name: "/dev/stdout"}
	Stderr = &Sink{name: "/dev/stderr"}
)

// Write discards p.
//
//go:norace
func (s *Sink) Write(p []byte) (int, error) { printed++; return len(p), nil }

// WriteString discards str.
//
//go:norace
func (s *Sink) WriteString(str string) (int, error) { printed++; return len(str), nil }

// Sync mirrors (*os.File).Sync.
func (s *Sink) Sync() error { return nil }

// Close mirrors (*os.File).Close.
func (s *Sink) Close() error { return nil }

// Name mirrors (*os.File).Name.
func (s *Sink) Name() string { return s.name }

// Fd mirrors (*os.File).Fd.
func (s *Sink) Fd() uintptr { return 1 }

// Package tooldriver is the child-process side of the tool world: it runs the
// rewritten pigeon main function in-process against the simulated OS and
// reports what an outside observer of the process would have seen.
package tooldriver

import (
	"bufio"
	"bytes"
	"crypto/sha256"
	"encoding/hex"
	"encoding/json"
	"fmt"
	"go/ast"
	"go/parser"
	"go/token"
	"hash/fnv"
	"log"
	"os"
	"runtime/debug"
	"sort"
	"strconv"
	"strings"
	"syscall"

	"verifsim/simmap"
	"verifsim/simos"
	"verifsim/simrt"
	"verifsim/simtask"
)

// Case is one simulated invocation (possibly repeated in the same process).
type Case struct {
	ID    string            `json:"id"`
	Args  []string          `json:"args"`
	Stdin []byte            `json:"stdin"`
	Files map[string][]byte `json:"files,omitempty"`
	Dirs  []string          `json:"dirs,omitempty"`
	// GrammarFile names the entry of Files that holds the grammar (when it is
	// delivered by file).
	GrammarFile string       `json:"grammar_file,omitempty"`
	Faults      simos.Faults `json:"faults"`
	MapMode     int          `json:"map_mode"`
	MapSeed     uint64       `json:"map_seed"`
	Repeat      int          `json:"repeat"`
	Full        bool         `json:"full,omitempty"`
	// Mode "rebuild": instead of main(), parse the grammar once and build the
	// parser twice from the same grammar value (library use of the builder).
	Mode string `json:"mode,omitempty"`
	// RebuildVariant selects what the library-style use does before the two
	// builds that are compared: 0 nothing; 1 a build into a writer that fails
	// after RebuildFailAt bytes (a fault in this process's history); 2 (with
	// -optimize-grammar) the grammar value is built once *before* it is
	// optimised, and compared with a freshly parsed, optimised, built one.
	RebuildVariant int `json:"rebuild_variant,omitempty"`
	RebuildFailAt  int `json:"rebuild_fail_at,omitempty"`
	// SchedSalt distinguishes the immediate repeats of one case (set by Serve).
	SchedSalt uint64 `json:"-"`
	// StepCap bounds the instrumentation steps (function entries and loop
	// iterations of pigeon's own packages) one run may take; 0 = no bound.
	StepCap int64 `json:"step_cap,omitempty"`
	// WallS, when set, is the watchdog limit of this case in seconds (big
	// inputs: pigeon's front-end needs seconds per megabyte); the driver uses
	// it instead of the general limit.
	WallS int `json:"wall_s,omitempty"`
}

// RebuildFunc parses the grammar once and builds it twice with the flags of
// the case; it returns the two emitted texts and error texts.
type RebuildFunc func(c *Case, grammar []byte) (out1, out2 []byte, err1, err2 string)

// FileSum summarises a file.
type FileSum struct {
	Len int    `json:"len"`
	SHA string `json:"sha"`
}

// Run is the observable outcome of one run of main.
type Run struct {
	Exit          int                `json:"exit"`
	ExitCalled    bool               `json:"exit_called"`
	Panic         string             `json:"panic,omitempty"`
	PanicStack    string             `json:"panic_stack,omitempty"`
	Stdout        FileSum            `json:"stdout"`
	Stderr        FileSum            `json:"stderr"`
	StderrHead    string             `json:"stderr_head,omitempty"`
	Files         map[string]FileSum `json:"files,omitempty"`
	OutFile       string             `json:"out_file,omitempty"`
	OutLen        int                `json:"out_len"`
	OutGoOK       bool               `json:"out_go_ok"`
	OutGoErr      string             `json:"out_go_err,omitempty"`
	OutUnresolved string             `json:"out_unresolved,omitempty"` // a method the emitted grammar refers to but the file does not define
	// OutDangling: names of rules the emitted grammar value refers to but does
	// not contain (sorted). Not wrong by itself - pigeon passes references to
	// rules the grammar never defines on to the parser - but a flag that only
	// optimises must not add any.
	OutDangling []string          `json:"out_dangling,omitempty"`
	Fired       simos.Fired       `json:"fired"`
	Map         simmap.Stats      `json:"map"`
	StdoutFull  []byte            `json:"stdout_full,omitempty"`
	StderrFull  []byte            `json:"stderr_full,omitempty"`
	FilesFull   map[string][]byte `json:"files_full,omitempty"`
	Steps       int64             `json:"steps"`
	Sched       simtask.Stats     `json:"sched"`
	StepCapHit  bool              `json:"step_cap_hit,omitempty"`
	// Blocked: the run waited for something that can never happen (a read from
	// its own standard output).
	Blocked string `json:"blocked,omitempty"`
	EnvReads    int               `json:"env_reads,omitempty"`
}

// Result is the answer to a Case.
type Result struct {
	ID   string `json:"id"`
	Runs []Run  `json:"runs"`
}

type stderrProxy struct{}

func (stderrProxy) Write(p []byte) (int, error) { return simos.Stderr.Write(p) }

func sum(b []byte) FileSum {
	h := sha256.Sum256(b)
	return FileSum{Len: len(b), SHA: hex.EncodeToString(h[:8])}
}

// RunOnce executes main once under the given case.
func RunOnce(mainFn func(), c *Case) (r Run) {
	files := c.Files
	w := simos.Reset(append([]string{"pigeon"}, c.Args...), c.Stdin, files, c.Dirs, c.Faults)
	// whatever goes through the standard logger belongs to the simulated stderr
	log.SetOutput(stderrProxy{})
	simmap.Configure(c.MapMode, c.MapSeed, true)
	stepCap := c.StepCap
	if stepCap <= 0 {
		stepCap = 1 << 62
	}
	cl := simrt.Solo(stepCap)
	// goroutines, channels and timers of the instrumented packages (none on the
	// pinned tree) are scheduled from this seed and nothing else
	h := fnv.New64a()
	h.Write([]byte(c.ID))
	simtask.Reset(h.Sum64() ^ c.MapSeed*0x9e3779b97f4a7c15 ^ uint64(c.MapMode)<<56 ^ (c.SchedSalt+1)*0xbf58476d1ce4e5b9)
	func() {
		defer func() {
			if e := recover(); e != nil {
				if cl.Aborted {
					return // the logical-time watchdog stopped the run
				}
				if _, ok := e.(simos.ExitSentinel); ok || w.Exited {
					return
				}
				if b, ok := e.(simos.BlockedForever); ok {
					r.Blocked = b.What
					return
				}
				r.Panic = fmt.Sprint(e)
				st := string(debug.Stack())
				if len(st) > 3000 {
					st = st[:3000]
				}
				r.PanicStack = st
			}
		}()
		mainFn()
	}()
	r.Steps, r.StepCapHit = cl.Steps, cl.Aborted
	r.Sched = simtask.Snapshot()
	cl.Cap = 1 << 62 // whatever still runs (deferred work of a later case) is not charged to this one
	r.ExitCalled = w.Exited
	r.Exit = w.ExitCode
	r.Fired = w.Fired
	r.EnvReads = w.EnvReads
	r.Map = simmap.Snapshot()
	so, se := w.StdoutBytes(), w.StderrBytes()
	r.Stdout, r.Stderr = sum(so), sum(se)
	head := se
	if len(head) > 400 {
		head = head[:400]
	}
	r.StderrHead = string(head)
	r.Files = map[string]FileSum{}
	for _, n := range w.FileNames() {
		r.Files[n] = sum(w.Files[n])
	}
	r.OutFile = w.OutFile
	out := so
	if w.OutFile != "" {
		out = w.Files[w.OutFile]
	}
	r.OutLen = len(out)
	if len(out) > 0 {
		_, err := parser.ParseFile(token.NewFileSet(), "out.go", out, parser.AllErrors)
		if err != nil {
			// a grammar without an initializer block yields a file without a
			// package clause (the user is expected to supply it): accept that
			_, err2 := parser.ParseFile(token.NewFileSet(), "out.go", append([]byte("package p\n"), out...), parser.AllErrors)
			if err2 == nil {
				err = nil
			}
		}
		r.OutGoOK = err == nil
		if err != nil {
			r.OutGoErr = strings.SplitN(err.Error(), "\n", 2)[0]
		} else {
			r.OutUnresolved = unresolvedMethods(out)
			r.OutDangling = danglingRules(out)
		}
	}
	if c.Full {
		r.StdoutFull, r.StderrFull = so, se
		r.FilesFull = map[string][]byte{}
		for _, n := range w.FileNames() {
			r.FilesFull[n] = w.Files[n]
		}
	}
	return r
}

// Serve reads cases from stdin and writes results to stdout, one JSON value
// per line, until EOF.
func Serve(mainFn func(), rebuild RebuildFunc) {
	// a runaway allocation in the code under test must kill this child, not the sandbox
	lim := syscall.Rlimit{Cur: 6 << 30, Max: 6 << 30}
	syscall.Setrlimit(syscall.RLIMIT_AS, &lim)
	in := bufio.NewReaderSize(os.Stdin, 1<<20)
	out := bufio.NewWriter(os.Stdout)
	dec := json.NewDecoder(in)
	enc := json.NewEncoder(out)
	for {
		var c Case
		if err := dec.Decode(&c); err != nil {
			return
		}
		res := Result{ID: c.ID}
		n := c.Repeat
		if n < 1 {
			n = 1
		}
		if c.Mode == "rebuild" && rebuild != nil {
			res.Runs = runRebuild(rebuild, &c)
		} else {
			for i := 0; i < n; i++ {
				c.SchedSalt = uint64(i)
				res.Runs = append(res.Runs, RunOnce(mainFn, &c))
			}
		}
		if err := enc.Encode(&res); err != nil {
			os.Exit(3)
		}
		out.Flush()
	}
}

// unresolvedMethods checks that the emitted file is self-contained with
// respect to its own methods: every method value (*T).name it mentions is a
// method the file declares on T. (A parser that refers to code-block glue it
// never emitted is not a complete parser, even if it is syntactically valid.)
func unresolvedMethods(src []byte) string {
	fset := token.NewFileSet()
	f, err := parser.ParseFile(fset, "out.go", src, 0)
	if err != nil {
		f, err = parser.ParseFile(fset, "out.go", append([]byte("package p\n"), src...), 0)
		if err != nil {
			return ""
		}
	}
	declared := map[string]bool{}
	for _, d := range f.Decls {
		fd, ok := d.(*ast.FuncDecl)
		if !ok || fd.Recv == nil || len(fd.Recv.List) == 0 {
			continue
		}
		t := fd.Recv.List[0].Type
		if st, ok := t.(*ast.StarExpr); ok {
			t = st.X
		}
		if _, ok := t.(*ast.Ident); ok {
			// by method name only: a method promoted from an embedded type is
			// declared on another receiver than the one the method value names
			declared[fd.Name.Name] = true
		}
	}
	missing := ""
	// ... and with respect to its own types: the emitted grammar value (the one
	// package-level variable that is a composite literal with a `rules` field)
	// is built from types of the emitted runtime only, so every type it names
	// must be declared in the file.
	types := map[string]bool{}
	for _, d := range f.Decls {
		if gd, ok := d.(*ast.GenDecl); ok && gd.Tok == token.TYPE {
			for _, sp := range gd.Specs {
				types[sp.(*ast.TypeSpec).Name.Name] = true
			}
		}
	}
	for _, d := range f.Decls {
		gd, ok := d.(*ast.GenDecl)
		if !ok || gd.Tok != token.VAR {
			continue
		}
		for _, sp := range gd.Specs {
			vs := sp.(*ast.ValueSpec)
			if len(vs.Values) != 1 {
				continue
			}
			v := vs.Values[0]
			if u, ok := v.(*ast.UnaryExpr); ok && u.Op == token.AND {
				v = u.X
			}
			cl, ok := v.(*ast.CompositeLit)
			if !ok {
				continue
			}
			isGrammar := false
			for _, el := range cl.Elts {
				if kv, ok := el.(*ast.KeyValueExpr); ok {
					if id, ok := kv.Key.(*ast.Ident); ok && id.Name == "rules" {
						isGrammar = true
					}
				}
			}
			if !isGrammar {
				continue
			}
			ast.Inspect(cl, func(n ast.Node) bool {
				c, ok := n.(*ast.CompositeLit)
				if !ok || missing != "" {
					return missing == ""
				}
				if id, ok := c.Type.(*ast.Ident); ok && !types[id.Name] {
					missing = "type " + id.Name
				}
				return true
			})
		}
	}
	if missing != "" {
		return missing
	}
	ast.Inspect(f, func(n ast.Node) bool {
		sel, ok := n.(*ast.SelectorExpr)
		if !ok || missing != "" {
			return missing == ""
		}
		par, ok := sel.X.(*ast.ParenExpr)
		if !ok {
			return true
		}
		st, ok := par.X.(*ast.StarExpr)
		if !ok {
			return true
		}
		id, ok := st.X.(*ast.Ident)
		if !ok {
			return true
		}
		if !declared[sel.Sel.Name] {
			// the emitter did write the method, but the text of a user code block
			// (a comment opener, a raw string) swallows it: that is the grammar
			// author's Go, not an incomplete emission
			if bytes.Contains(src, []byte(") "+sel.Sel.Name+"(")) {
				return true
			}
			missing = "(*" + id.Name + ")." + sel.Sel.Name
		}
		return true
	})
	return missing
}

// danglingRules lists the rule names that ruleRefExpr nodes of the emitted
// grammar value mention and no rule of that value carries.
func danglingRules(src []byte) []string {
	fset := token.NewFileSet()
	f, err := parser.ParseFile(fset, "out.go", src, 0)
	if err != nil {
		f, err = parser.ParseFile(fset, "out.go", append([]byte("package p\n"), src...), 0)
		if err != nil {
			return nil
		}
	}
	strField := func(cl *ast.CompositeLit, key string) (string, bool) {
		for _, el := range cl.Elts {
			kv, ok := el.(*ast.KeyValueExpr)
			if !ok {
				continue
			}
			if id, ok := kv.Key.(*ast.Ident); ok && id.Name == key {
				if bl, ok := kv.Value.(*ast.BasicLit); ok && bl.Kind == token.STRING {
					if s, err := strconv.Unquote(bl.Value); err == nil {
						return s, true
					}
				}
			}
		}
		return "", false
	}
	rules := map[string]bool{}
	refs := map[string]bool{}
	ast.Inspect(f, func(n ast.Node) bool {
		cl, ok := n.(*ast.CompositeLit)
		if !ok {
			return true
		}
		id, ok := cl.Type.(*ast.Ident)
		if !ok {
			// elements of []*rule{ {...}, ... } have no type of their own
			if _, hasExpr := strFieldKey(cl, "expr"); hasExpr {
				if nm, ok := strField(cl, "name"); ok {
					rules[nm] = true
				}
			}
			return true
		}
		switch id.Name {
		case "rule":
			if nm, ok := strField(cl, "name"); ok {
				rules[nm] = true
			}
		case "ruleRefExpr":
			if nm, ok := strField(cl, "name"); ok {
				refs[nm] = true
			}
		}
		return true
	})
	var out []string
	for r := range refs {
		if !rules[r] {
			out = append(out, r)
		}
	}
	sort.Strings(out)
	return out
}

// strFieldKey reports whether the literal has the given key at all.
func strFieldKey(cl *ast.CompositeLit, key string) (ast.Expr, bool) {
	for _, el := range cl.Elts {
		if kv, ok := el.(*ast.KeyValueExpr); ok {
			if id, ok := kv.Key.(*ast.Ident); ok && id.Name == key {
				return kv.Value, true
			}
		}
	}
	return nil, false
}

func runRebuild(rebuild RebuildFunc, c *Case) (runs []Run) {
	simos.Reset(append([]string{"pigeon"}, c.Args...), c.Stdin, c.Files, c.Dirs, simos.NoFaults())
	simmap.Configure(c.MapMode, c.MapSeed, true)
	simrt.Solo(1 << 62)
	h := fnv.New64a()
	h.Write([]byte(c.ID))
	simtask.Reset(h.Sum64() ^ c.MapSeed*0x9e3779b97f4a7c15 ^ uint64(c.MapMode)<<56)
	g := c.Stdin
	if b, ok := c.Files["grammar.peg"]; ok {
		g = b
	}
	var o1, o2 []byte
	var e1, e2, pan string
	func() {
		defer func() {
			if e := recover(); e != nil {
				pan = fmt.Sprint(e)
			}
		}()
		o1, o2, e1, e2 = rebuild(c, g)
	}()
	mk := func(o []byte, e string) Run {
		r := Run{Stdout: sum(o), Stderr: sum([]byte(e)), StderrHead: e, OutLen: len(o), Panic: pan, Map: simmap.Snapshot(), Sched: simtask.Snapshot()}
		if e != "" {
			r.Exit = 5
		}
		if c.Full {
			r.StdoutFull = o
		}
		return r
	}
	return []Run{mk(o1, e1), mk(o2, e2)}
}

// FailingWriter accepts n bytes and then fails every write.
type FailingWriter struct{ N int }

func (w *FailingWriter) Write(p []byte) (int, error) {
	if len(p) <= w.N {
		w.N -= len(p)
		return len(p), nil
	}
	n := w.N
	w.N = 0
	return n, fmt.Errorf("simulated: no space left on device")
}

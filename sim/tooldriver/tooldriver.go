// Package tooldriver is the child-process side of the tool world: it runs the
// rewritten pigeon main function in-process against the simulated OS and
// reports what an outside observer of the process would have seen.
package tooldriver

import (
	"bufio"
	"crypto/sha256"
	"encoding/hex"
	"encoding/json"
	"fmt"
	"go/parser"
	"go/token"
	"os"
	"runtime/debug"
	"strings"
	"syscall"

	"verifsim/simmap"
	"verifsim/simos"
)

// Case is one simulated invocation (possibly repeated in the same process).
type Case struct {
	ID      string            `json:"id"`
	Args    []string          `json:"args"`
	Stdin   []byte            `json:"stdin"`
	Files   map[string][]byte `json:"files,omitempty"`
	Dirs    []string          `json:"dirs,omitempty"`
	Faults  simos.Faults      `json:"faults"`
	MapMode int               `json:"map_mode"`
	MapSeed uint64            `json:"map_seed"`
	Repeat  int               `json:"repeat"`
	Full    bool              `json:"full,omitempty"`
}

// FileSum summarises a file.
type FileSum struct {
	Len int    `json:"len"`
	SHA string `json:"sha"`
}

// Run is the observable outcome of one run of main.
type Run struct {
	Exit       int                `json:"exit"`
	ExitCalled bool               `json:"exit_called"`
	Panic      string             `json:"panic,omitempty"`
	PanicStack string             `json:"panic_stack,omitempty"`
	Stdout     FileSum            `json:"stdout"`
	Stderr     FileSum            `json:"stderr"`
	StderrHead string             `json:"stderr_head,omitempty"`
	Files      map[string]FileSum `json:"files,omitempty"`
	OutFile    string             `json:"out_file,omitempty"`
	OutLen     int                `json:"out_len"`
	OutGoOK    bool               `json:"out_go_ok"`
	OutGoErr   string             `json:"out_go_err,omitempty"`
	Fired      simos.Fired        `json:"fired"`
	Map        simmap.Stats       `json:"map"`
	StdoutFull []byte             `json:"stdout_full,omitempty"`
	StderrFull []byte             `json:"stderr_full,omitempty"`
	FilesFull  map[string][]byte  `json:"files_full,omitempty"`
}

// Result is the answer to a Case.
type Result struct {
	ID   string `json:"id"`
	Runs []Run  `json:"runs"`
}

func sum(b []byte) FileSum {
	h := sha256.Sum256(b)
	return FileSum{Len: len(b), SHA: hex.EncodeToString(h[:8])}
}

// RunOnce executes main once under the given case.
func RunOnce(mainFn func(), c *Case) (r Run) {
	files := c.Files
	w := simos.Reset(append([]string{"pigeon"}, c.Args...), c.Stdin, files, c.Dirs, c.Faults)
	simmap.Configure(c.MapMode, c.MapSeed, true)
	func() {
		defer func() {
			if e := recover(); e != nil {
				if _, ok := e.(simos.ExitSentinel); ok || w.Exited {
					return
				}
				r.Panic = fmt.Sprint(e)
				st := string(debug.Stack())
				if len(st) > 3000 {
					st = st[:3000]
				}
				r.PanicStack = st
			}
		}()
		mainFn()
	}()
	r.ExitCalled = w.Exited
	r.Exit = w.ExitCode
	r.Fired = w.Fired
	r.Map = simmap.Snapshot()
	so, se := w.StdoutBytes(), w.StderrBytes()
	r.Stdout, r.Stderr = sum(so), sum(se)
	head := se
	if len(head) > 400 {
		head = head[:400]
	}
	r.StderrHead = string(head)
	r.Files = map[string]FileSum{}
	for _, n := range w.FileNames() {
		r.Files[n] = sum(w.Files[n])
	}
	r.OutFile = w.OutFile
	out := so
	if w.OutFile != "" {
		out = w.Files[w.OutFile]
	}
	r.OutLen = len(out)
	if len(out) > 0 {
		_, err := parser.ParseFile(token.NewFileSet(), "out.go", out, parser.AllErrors)
		if err != nil {
			// a grammar without an initializer block yields a file without a
			// package clause (the user is expected to supply it): accept that
			_, err2 := parser.ParseFile(token.NewFileSet(), "out.go", append([]byte("package p\n"), out...), parser.AllErrors)
			if err2 == nil {
				err = nil
			}
		}
		r.OutGoOK = err == nil
		if err != nil {
			r.OutGoErr = strings.SplitN(err.Error(), "\n", 2)[0]
		}
	}
	if c.Full {
		r.StdoutFull, r.StderrFull = so, se
		r.FilesFull = map[string][]byte{}
		for _, n := range w.FileNames() {
			r.FilesFull[n] = w.Files[n]
		}
	}
	return r
}

// Serve reads cases from stdin and writes results to stdout, one JSON value
// per line, until EOF.
func Serve(mainFn func()) {
	// a runaway allocation in the code under test must kill this child, not the sandbox
	lim := syscall.Rlimit{Cur: 6 << 30, Max: 6 << 30}
	syscall.Setrlimit(syscall.RLIMIT_AS, &lim)
	in := bufio.NewReaderSize(os.Stdin, 1<<20)
	out := bufio.NewWriter(os.Stdout)
	dec := json.NewDecoder(in)
	enc := json.NewEncoder(out)
	for {
		var c Case
		if err := dec.Decode(&c); err != nil {
			return
		}
		res := Result{ID: c.ID}
		n := c.Repeat
		if n < 1 {
			n = 1
		}
		for i := 0; i < n; i++ {
			res.Runs = append(res.Runs, RunOnce(mainFn, &c))
		}
		if err := enc.Encode(&res); err != nil {
			os.Exit(3)
		}
		out.Flush()
	}
}

package gen

import (
	"fmt"
	"strings"
	"unicode/utf8"
)

// Rand is the only source of choices.
type Rand interface{ Intn(n int) int }

// Config steers the random grammar generator (swarm style: callers enable a
// random subset of the features per grammar).
type Config struct {
	MaxRules   int
	MaxDepth   int
	Actions    bool
	Preds      bool // code predicates
	States     bool // state blocks
	Lookahead  bool // & and !
	Labels     bool
	Throws     bool // throw / recover
	Fold       bool // i suffix on literals/classes
	Unicode    bool // multi-byte runes and unicode classes
	AnyMatcher bool
	Display    bool // display names
	// NullableLoops allows repetitions over bodies that may match the empty
	// string (C16 only: such a parser needs a budget to terminate).
	NullableLoops bool
	// LeftRec asks for a left-recursive grammar of one of the canonical shapes.
	LeftRec bool
	// LeftRecDirect restricts LeftRec to directly left-recursive rules.
	LeftRecDirect bool
	// LeftRecRunnable leaves out the shape with a nullable prefix before the
	// recursive reference: pigeon accepts it with -support-left-recursion but
	// the generated parser recurses without bound on every input (observation
	// O3), so it is only used where parsers are generated and never run.
	LeftRecRunnable bool
	// StateBias puts state blocks in front of likely failure points.
	StateBias bool
	// Unused adds rules that nothing references; Undefined adds references to
	// rules that do not exist (tool world only).
	Unused     bool
	Undefined  bool
	SharedLeaf bool // small leaf rules referenced from several places (optimizer food)
	// FreeRefs lets every rule reference every rule, preferably in leading
	// position, and skips the left-recursion filter (tool world only: such
	// parsers are generated but never run).
	FreeRefs bool
	// CaseNames uses rule names that differ only by letter case.
	CaseNames bool
	// DigitNames uses rule names that are prefixes of each other followed by
	// digits (A, A1, A11, ...): names derived from rule name + a number collide.
	DigitNames bool
	// LongLits allows literals of up to eight characters.
	LongLits bool
	// BigClasses allows character classes listing nine to sixteen single characters.
	BigClasses bool
	// UniNames uses rule names with letters outside ASCII (Größe, Жук, 名前).
	UniNames bool
	// DeepNest puts a new first rule `Nest <- "(" Nest ")" / Start` in front of
	// the grammar: an input of k opening parentheses has k+1 rules active at
	// once (not with LeftRec or TopLoop).
	DeepNest bool
	// TopLoop puts a new first rule `Top <- ( . Start? )*` (with an action when
	// Actions is set) in front of the grammar, so that an input of n characters
	// makes the parser run for at least n rounds: long parses with thousands of
	// code-block events out of small grammars (not with LeftRec).
	TopLoop bool
	// Wide draws terminals from a wider alphabet (letters whose case mapping
	// leaves ASCII, digits, punctuation) and the usual wide ranges; tool world
	// only, where no input has to match.
	Wide bool
}

type gctx struct {
	r       Rand
	cfg     Config
	rules   []string
	nlabel  int
	labels  []string // failure labels in use
	inRecov bool
	curRule int
}

var asciiAlphabet = []rune{'a', 'b', 'c'}
var uniAlphabet = []rune{'a', 'b', 'c', '\n', 'é', '日'}

var wideAlphabet = []rune{'a', 'b', 'c', 'k', 's', 'z', 'K', 'S', 'I', 'i', '0', '9', '_', '-', '+', '(', ')', '"', '\'', '\\', ']', '^', '\n', '\t', 'é', 'ß', 'ſ', 'K', 'İ', '日'}

func (c *gctx) alphabet() []rune {
	if c.cfg.Wide {
		return wideAlphabet
	}
	if c.cfg.Unicode {
		return uniAlphabet
	}
	return []rune{'a', 'b', 'c', '\n'}
}

func (c *gctx) chance(num, den int) bool { return c.r.Intn(den) < num }

func (c *gctx) lit() *Expr {
	al := c.alphabet()
	n := 1 + c.r.Intn(3)
	if c.chance(1, 12) {
		n = 0
	}
	if c.cfg.LongLits && c.chance(1, 3) {
		n = 4 + c.r.Intn(5)
	}
	var b strings.Builder
	for i := 0; i < n; i++ {
		if n >= 4 && c.cfg.Unicode && c.chance(1, 2) {
			// long and wide: many bytes consumed by one expression
			b.WriteRune([]rune{'é', '日', '日'}[c.r.Intn(3)])
			continue
		}
		b.WriteRune(al[c.r.Intn(len(al))])
	}
	e := &Expr{Kind: Lit, Text: b.String()}
	if c.cfg.Fold && c.chance(1, 4) {
		e.Fold = true
		if c.chance(1, 2) {
			e.Text = strings.ToUpper(e.Text)
		}
	}
	return e
}

func (c *gctx) class() *Expr {
	e := &Expr{Kind: Class}
	al := c.alphabet()
	if c.cfg.Wide && c.chance(1, 3) {
		rs := [][2]rune{{'a', 'z'}, {'A', 'Z'}, {'0', '9'}, {'a', 'f'}, {'j', 'l'}, {'r', 't'}, {0x80, 0xff}, {'a', 'a'}}
		for n := 1 + c.r.Intn(2); n > 0; n-- {
			p := rs[c.r.Intn(len(rs))]
			e.Ranges = append(e.Ranges, p[0], p[1])
		}
	}
	switch c.r.Intn(5) {
	case 0:
		e.Ranges = append(e.Ranges, 'a', 'c')
	case 1:
		e.Ranges = append(e.Ranges, 'a', 'b')
		e.Chars = []rune{al[c.r.Intn(len(al))]}
	default:
		n := 1 + c.r.Intn(3)
		seen := map[rune]bool{}
		for i := 0; i < n; i++ {
			ch := al[c.r.Intn(len(al))]
			if !seen[ch] {
				seen[ch] = true
				e.Chars = append(e.Chars, ch)
			}
		}
	}
	if c.cfg.BigClasses && c.chance(1, 2) {
		// many individually listed characters (nothing a range would cover)
		pool := []rune("abcxyzmnpqrstuvwdefghABC019_")
		seen := map[rune]bool{}
		for _, ch := range e.Chars {
			seen[ch] = true
		}
		for n := 9 + c.r.Intn(8); n > 0; n-- {
			ch := pool[c.r.Intn(len(pool))]
			if !seen[ch] {
				seen[ch] = true
				e.Chars = append(e.Chars, ch)
			}
		}
	}
	if c.cfg.Unicode && c.chance(1, 3) {
		e.UClass = append(e.UClass, []string{"L", "Lu", "Nd", "Ll", "Latin", "Greek"}[c.r.Intn(6)])
	}
	if c.cfg.Wide && c.chance(1, 3) {
		// several Unicode classes, so that classes merged by the optimizer share some
		names := []string{"L", "N", "Lu", "Ll", "Nd", "Latin", "Greek", "Cyrillic", "P"}
		for n := 1 + c.r.Intn(3); n > 0; n-- {
			e.UClass = append(e.UClass, names[c.r.Intn(len(names))])
		}
	}
	if c.chance(1, 5) {
		e.Invert = true
	}
	if c.cfg.Unicode && c.chance(1, 10) {
		// runes whose case mapping crosses the ASCII boundary, and range edges
		e.Chars = append(e.Chars, []rune{0x212a, 0x130, 0x17f, 0x7f, 0x80, 0xfffd}[c.r.Intn(6)])
	}
	if c.cfg.Wide && c.cfg.Fold && c.chance(1, 2) {
		// letters whose simple case folding leaves ASCII, in a case-insensitive class
		e.Fold = true
		e.Chars = append(e.Chars, []rune{'k', 's', 'K', 0x212a, 0x212a, 0x17f, 0x130, 0x130}[c.r.Intn(8)])
	}
	if c.cfg.Fold && c.chance(1, 5) {
		e.Fold = true
		for i, ch := range e.Chars {
			if ch >= 'a' && ch <= 'c' && c.chance(1, 2) {
				e.Chars[i] = ch - 32
			}
		}
	}
	return e
}

func (c *gctx) terminal() *Expr {
	switch n := c.r.Intn(10); {
	case n < 5:
		return c.lit()
	case n < 9 || !c.cfg.AnyMatcher:
		return c.class()
	default:
		return &Expr{Kind: Any}
	}
}

func (c *gctx) newLabel() string {
	c.nlabel++
	return fmt.Sprintf("l%d", c.nlabel)
}

// expr generates an expression. consuming: the caller needs an expression
// that cannot match the empty string (best effort; verified afterwards).
func (c *gctx) expr(depth int, consuming bool) *Expr {
	if depth <= 0 {
		if !c.inRecov && len(c.rules) > 0 && c.chance(1, 3) {
			return c.ref()
		}
		return c.terminal()
	}
	if c.cfg.StateBias && c.cfg.States && !c.inRecov && c.chance(1, 4) {
		return c.stateProbe(depth, consuming)
	}
	if c.cfg.Wide && c.chance(1, 5) {
		// optimizer food: a choice of classes and one-character literals, which
		// -optimize-grammar folds into one class
		e := &Expr{Kind: Choice}
		for n := 2 + c.r.Intn(3); n > 0; n-- {
			if c.chance(2, 3) {
				e.Subs = append(e.Subs, c.class())
			} else {
				al := c.alphabet()
				e.Subs = append(e.Subs, &Expr{Kind: Lit, Text: string(al[c.r.Intn(len(al))])})
			}
		}
		return e
	}
	for tries := 0; tries < 20; tries++ {
		switch c.r.Intn(16) {
		case 0, 1, 2:
			n := 2 + c.r.Intn(2)
			e := &Expr{Kind: Seq}
			for i := 0; i < n; i++ {
				e.Subs = append(e.Subs, c.seqItem(depth-1))
			}
			return e
		case 3, 4:
			n := 2 + c.r.Intn(2)
			e := &Expr{Kind: Choice}
			for i := 0; i < n; i++ {
				e.Subs = append(e.Subs, c.expr(depth-1, consuming))
			}
			return e
		case 5:
			if consuming && !c.cfg.NullableLoops {
				continue
			}
			if c.cfg.NullableLoops && c.chance(1, 3) {
				// a repetition directly over something that matches without consuming
				k := Star
				if c.chance(1, 3) {
					k = Plus
				}
				body := &Expr{Kind: Lit, Text: ""}
				if c.cfg.Lookahead && c.chance(1, 3) {
					body = &Expr{Kind: And, Subs: []*Expr{c.terminal()}}
				}
				if c.cfg.Preds && c.chance(1, 2) {
					// a loop that consumes nothing and still ends: its body asks user code
					pk := AndCode
					if c.chance(1, 3) {
						pk = NotCode
					}
					body = &Expr{Kind: pk}
					if c.chance(1, 2) {
						body = &Expr{Kind: Seq, Subs: []*Expr{{Kind: pk}, {Kind: Opt, Subs: []*Expr{c.terminal()}}}}
					}
				}
				return &Expr{Kind: k, Subs: []*Expr{body}}
			}
			return &Expr{Kind: Star, Subs: []*Expr{c.expr(depth-1, !c.cfg.NullableLoops)}}
		case 6:
			return &Expr{Kind: Plus, Subs: []*Expr{c.expr(depth-1, !c.cfg.NullableLoops)}}
		case 7:
			if consuming {
				continue
			}
			return &Expr{Kind: Opt, Subs: []*Expr{c.expr(depth-1, false)}}
		case 8:
			if !c.cfg.Lookahead || consuming {
				continue
			}
			k := And
			if c.chance(1, 2) {
				k = Not
			}
			return &Expr{Kind: k, Subs: []*Expr{c.expr(depth-1, false)}}
		case 9, 10:
			if !c.cfg.Actions {
				continue
			}
			return &Expr{Kind: Action, Subs: []*Expr{c.expr(depth-1, consuming)}}
		case 11:
			if c.inRecov || len(c.rules) == 0 {
				continue
			}
			return c.ref()
		case 12:
			if !c.cfg.Throws || c.inRecov || consuming {
				continue
			}
			// guarded expression with a throw somewhere inside, plus a recovery
			lab := fmt.Sprintf("E%d", 1+c.r.Intn(2))
			saved := c.labels
			c.labels = append(c.labels, lab)
			guarded := c.expr(depth-1, false)
			c.labels = saved
			if c.chance(1, 3) {
				// the classic recovery pattern: a list whose items may each throw
				item := &Expr{Kind: Choice, Subs: []*Expr{c.terminal(), {Kind: Throw, Name: lab}}}
				if c.cfg.States && c.chance(1, 2) {
					item = &Expr{Kind: Seq, Subs: []*Expr{{Kind: State}, item}}
				}
				guarded = &Expr{Kind: Seq, Subs: []*Expr{{Kind: Star, Subs: []*Expr{{Kind: Seq, Subs: []*Expr{item, c.terminal()}}}}, guarded}}
			}
			recovery := func() *Expr {
				c.inRecov = true
				rec := c.expr(min(depth-1, 1), false)
				c.inRecov = false
				if c.chance(1, 3) {
					// a recovery expression that itself installs a handler (for a label
					// nobody throws: it must not disturb the handlers in force)
					rec = &Expr{Kind: Recover, Subs: []*Expr{rec, c.terminal()}, Labels: []string{"E9"}}
				}
				return rec
			}
			rec := recovery()
			labs := []string{lab}
			if c.chance(1, 4) {
				labs = append(labs, "E3")
			}
			e := &Expr{Kind: Recover, Subs: []*Expr{guarded, rec}, Labels: labs}
			// several handlers for the same label, innermost first
			for c.chance(1, 3) {
				e = &Expr{Kind: Recover, Subs: []*Expr{e, recovery()}, Labels: []string{lab}}
			}
			return e
		case 13:
			if !c.cfg.Throws || c.inRecov || consuming {
				continue
			}
			lab := "E1"
			if len(c.labels) > 0 && c.chance(3, 4) {
				lab = c.labels[c.r.Intn(len(c.labels))]
			} else if c.chance(1, 2) {
				lab = "E2"
			}
			return &Expr{Kind: Throw, Name: lab}
		default:
			return c.terminal()
		}
	}
	return c.terminal()
}

// stateProbe builds the shapes the state-store property quantifies over: a
// state change followed by a point where the enclosing expression may fail,
// inside each kind of enclosing expression, with an observer afterwards.
func (c *gctx) stateProbe(depth int, consuming bool) *Expr {
	pred := func() *Expr {
		if c.cfg.Lookahead && c.chance(1, 5) {
			// the failure point is a lookahead that says no (or yes): an element of
			// the sequence that has put the store back by itself - to where *it*
			// started, not to where the sequence did
			k := And
			if c.chance(1, 2) {
				k = Not
			}
			return &Expr{Kind: k, Subs: []*Expr{c.terminal()}}
		}
		if !c.cfg.Preds {
			return c.terminal()
		}
		if c.chance(1, 3) {
			return &Expr{Kind: NotCode}
		}
		return &Expr{Kind: AndCode}
	}
	probe := func() *Expr {
		items := []*Expr{{Kind: State}}
		if c.chance(1, 2) {
			items = append(items, c.expr(depth-1, false))
		}
		if c.chance(1, 3) {
			items = append(items, &Expr{Kind: State})
		}
		items = append(items, pred())
		return &Expr{Kind: Seq, Subs: items}
	}
	observer := func(e *Expr) *Expr {
		if c.cfg.Actions {
			return &Expr{Kind: Action, Subs: []*Expr{e}}
		}
		return &Expr{Kind: Seq, Subs: []*Expr{e, pred()}}
	}
	switch c.r.Intn(8) {
	case 0, 1: // choice of several probes, then an observing alternative
		n := 2 + c.r.Intn(3)
		e := &Expr{Kind: Choice}
		for i := 0; i < n; i++ {
			e.Subs = append(e.Subs, probe())
		}
		e.Subs = append(e.Subs, observer(c.terminal()))
		return e
	case 2: // predicate around a probe, observer after
		k := And
		if c.chance(1, 2) {
			k = Not
		}
		return &Expr{Kind: Seq, Subs: []*Expr{{Kind: k, Subs: []*Expr{probe()}}, observer(c.terminal())}}
	case 3: // optional probe
		body := probe()
		switch c.r.Intn(4) {
		case 3:
			// the sequence starts with a group that has an action of its own and a
			// state block inside, and fails later
			if c.cfg.Actions {
				lead := &Expr{Kind: Action, Subs: []*Expr{{Kind: Seq, Subs: []*Expr{c.terminal(), {Kind: State}}}}}
				body = &Expr{Kind: Seq, Subs: []*Expr{lead, pred()}}
				if c.chance(1, 2) {
					body = &Expr{Kind: Seq, Subs: []*Expr{lead, c.terminal(), pred()}}
				}
			}
		case 0: // matches, and the value of the match is nil
			body = &Expr{Kind: State}
		case 1: // matches or not; when it does the action may return a nil value
			if c.cfg.Actions {
				body = &Expr{Kind: Action, Subs: []*Expr{body}}
			}
		}
		wrap := Opt
		if c.cfg.Lookahead && c.chance(1, 3) {
			// a lookahead directly under ? or *: nothing but the lookahead itself
			// stands between the state change in its operand and the observer
			lk := Not
			if c.chance(1, 3) {
				lk = And
			}
			body = &Expr{Kind: lk, Subs: []*Expr{body}}
			if c.chance(1, 3) {
				wrap = Star
				if lk == And {
					wrap = Opt // (&e)* never ends
				}
			}
		}
		return &Expr{Kind: Seq, Subs: []*Expr{{Kind: wrap, Subs: []*Expr{body}}, observer(c.terminal())}}
	case 4: // repetition whose iterations change state and may fail late
		body := &Expr{Kind: Seq, Subs: []*Expr{c.terminal(), {Kind: State}, pred()}}
		if body.Subs[0].Kind == Lit && body.Subs[0].Text == "" {
			body.Subs[0] = &Expr{Kind: Any}
		}
		return &Expr{Kind: Seq, Subs: []*Expr{{Kind: Star, Subs: []*Expr{body}}, observer(c.terminal())}}
	case 5: // an inner lookahead that matches and changes state, observed while still inside an outer lookahead
		inner := &Expr{Kind: And, Subs: []*Expr{{Kind: Seq, Subs: []*Expr{{Kind: State}, c.terminal()}}}}
		if inner.Subs[0].Subs[1].Kind == Lit {
			inner.Subs[0].Subs[1] = &Expr{Kind: Lit, Text: ""}
		}
		k := And
		if c.chance(1, 2) {
			k = Not
		}
		outer := &Expr{Kind: k, Subs: []*Expr{{Kind: Seq, Subs: []*Expr{inner, pred(), {Kind: State}, pred()}}}}
		return &Expr{Kind: Seq, Subs: []*Expr{outer, observer(c.terminal())}}
	case 6:
		// the same rule evaluated twice at one offset with a state change in
		// between (first under a lookahead, or in an alternative that is given
		// up): whatever is remembered about the first evaluation must not bring
		// its store back
		if len(c.rules) > 0 && !c.inRecov {
			x := c.ref()
			again := &Expr{Kind: Ref, Name: x.Name}
			if c.chance(1, 2) {
				return &Expr{Kind: Seq, Subs: []*Expr{{Kind: And, Subs: []*Expr{x}}, {Kind: State}, observer(again)}}
			}
			return &Expr{Kind: Seq, Subs: []*Expr{{Kind: State}, {Kind: Choice, Subs: []*Expr{
				{Kind: Seq, Subs: []*Expr{x, {Kind: State}, pred()}},
				{Kind: Seq, Subs: []*Expr{{Kind: State}, observer(again)}}}}}}
		}
		fallthrough
	default: // sequence failing after a state change, inside an alternative
		return &Expr{Kind: Choice, Subs: []*Expr{{Kind: Seq, Subs: []*Expr{c.terminal(), {Kind: State}, c.terminal(), pred()}}, observer(c.terminal())}}
	}
}

func min(a, b int) int {
	if a < b {
		return a
	}
	return b
}

func (c *gctx) ref() *Expr {
	return &Expr{Kind: Ref, Name: c.rules[c.r.Intn(len(c.rules))]}
}

// seqItem is an element of a sequence: possibly labelled, possibly a code
// predicate or state block.
func (c *gctx) seqItem(depth int) *Expr {
	n := c.r.Intn(12)
	switch {
	case n == 0 && c.cfg.Preds:
		k := AndCode
		if c.chance(1, 3) {
			k = NotCode
		}
		return &Expr{Kind: k}
	case (n == 1 || (n == 2 && c.cfg.StateBias)) && c.cfg.States && !c.inRecov:
		return &Expr{Kind: State}
	case n <= 4 && c.cfg.Labels:
		return &Expr{Kind: Label, Name: c.newLabel(), Subs: []*Expr{c.expr(depth, false)}}
	}
	return c.expr(depth, false)
}

// Generate builds a random grammar that is free of left recursion (unless
// cfg.LeftRec) and of nullable repetition bodies (unless cfg.NullableLoops).
// It returns nil if it could not find one within the attempt budget.
func Generate(r Rand, cfg Config) *Grammar {
	for attempt := 0; attempt < 200; attempt++ {
		g := generateOnce(r, cfg)
		if cfg.NullableLoops && cfg.Preds && !cfg.LeftRec && r.Intn(3) == 0 {
			// a repetition that consumes nothing and still ends, because its body asks
			// user code whether to go on (indentation stacks, pending tokens): put in
			// front of the start rule, where every input reaches it
			pk := AndCode
			if r.Intn(3) == 0 {
				pk = NotCode
			}
			var body *Expr
			switch r.Intn(4) {
			case 0:
				body = &Expr{Kind: pk}
			case 1:
				body = &Expr{Kind: Seq, Subs: []*Expr{{Kind: pk}, {Kind: Opt, Subs: []*Expr{{Kind: Lit, Text: "\x00"}}}}}
			case 2:
				body = &Expr{Kind: Seq, Subs: []*Expr{{Kind: Lit, Text: ""}, {Kind: pk}}}
			default:
				body = &Expr{Kind: Seq, Subs: []*Expr{{Kind: And, Subs: []*Expr{{Kind: Any}}}, {Kind: pk}}}
			}
			if cfg.States && r.Intn(2) == 0 {
				// ... and changes the state in every round (pop one level of an
				// indentation stack while the predicate says there is one to pop)
				if body.Kind == Seq {
					body.Subs = append(body.Subs, &Expr{Kind: State})
				} else {
					body = &Expr{Kind: Seq, Subs: []*Expr{body, {Kind: State}}}
				}
			}
			k := Star
			if r.Intn(3) == 0 {
				k = Plus
			}
			loop := &Expr{Kind: k, Subs: []*Expr{body}}
			if k == Plus {
				loop = &Expr{Kind: Opt, Subs: []*Expr{loop}}
			}
			g.Rules[0].Expr = &Expr{Kind: Seq, Subs: []*Expr{loop, g.Rules[0].Expr}}
		}
		if cfg.DeepNest && !cfg.LeftRec && !cfg.TopLoop {
			inner := &Expr{Kind: Seq, Subs: []*Expr{{Kind: Lit, Text: "("}, {Kind: Ref, Name: "Nest"}, {Kind: Lit, Text: ")"}}}
			body := &Expr{Kind: Choice, Subs: []*Expr{inner, {Kind: Ref, Name: g.Rules[0].Name}}}
			nest := &Rule{Name: "Nest", Expr: body}
			g.Rules = append([]*Rule{nest}, g.Rules...)
		}
		if cfg.TopLoop && !cfg.LeftRec {
			unit := &Expr{Kind: Seq, Subs: []*Expr{{Kind: Any}, {Kind: Opt, Subs: []*Expr{{Kind: Ref, Name: g.Rules[0].Name}}}}}
			if cfg.Actions {
				unit = &Expr{Kind: Action, Subs: []*Expr{unit}}
			}
			top := &Rule{Name: "Top", Expr: &Expr{Kind: Star, Subs: []*Expr{unit}}}
			g.Rules = append([]*Rule{top}, g.Rules...)
		}
		g.Finish()
		if cfg.LeftRec || cfg.FreeRefs {
			return g
		}
		if !cfg.Undefined && g.LeftRecursive() {
			continue
		}
		if !cfg.NullableLoops && g.NullableLoops() {
			continue
		}
		return g
	}
	return nil
}

var ruleNames = []string{"Start", "Aa", "Bb", "Cc", "Dd", "Ee", "Ff", "Gg"}
var caseRuleNames = []string{"Start", "Aa", "aa", "AA", "Bb", "bb", "aA", "bB"}

func generateOnce(r Rand, cfg Config) *Grammar {
	if cfg.MaxRules < 1 {
		cfg.MaxRules = 1
	}
	if cfg.MaxDepth < 1 {
		cfg.MaxDepth = 1
	}
	n := 1 + r.Intn(cfg.MaxRules)
	c := &gctx{r: r, cfg: cfg}
	g := &Grammar{}
	if cfg.LeftRec {
		return generateLR(c)
	}
	ruleNames := ruleNames
	if cfg.CaseNames {
		ruleNames = caseRuleNames
	}
	if cfg.DigitNames {
		ruleNames = []string{"Start", "A", "A1", "A11", "A2", "A12", "A1_", "A111"}
	}
	if cfg.UniNames {
		ruleNames = []string{"Start", "Größe", "Ünit", "Жук", "名前", "Ça", "Ωmega", "Éé"}
	}
	if n > len(ruleNames) {
		n = len(ruleNames)
	}
	// rules may only reference later rules plus, rarely, any rule (the
	// left-recursion filter rejects bad outcomes)
	for i := 0; i < n; i++ {
		c.curRule = i
		c.rules = nil
		for j := i + 1; j < n; j++ {
			c.rules = append(c.rules, ruleNames[j])
		}
		if c.chance(1, 5) || cfg.FreeRefs {
			for j := 0; j <= i; j++ {
				c.rules = append(c.rules, ruleNames[j])
			}
		}
		if cfg.Undefined && c.chance(1, 3) {
			c.rules = append(c.rules, "Nowhere")
		}
		depth := 1 + r.Intn(cfg.MaxDepth)
		e := c.expr(depth, false)
		if cfg.FreeRefs && c.chance(2, 3) {
			// put a reference in leading position of a new alternative or sequence
			lead := c.ref()
			if c.chance(1, 3) {
				lead = &Expr{Kind: Seq, Subs: []*Expr{{Kind: Opt, Subs: []*Expr{c.terminal()}}, c.ref()}}
			}
			switch c.r.Intn(3) {
			case 0:
				e = &Expr{Kind: Choice, Subs: []*Expr{{Kind: Seq, Subs: []*Expr{lead, c.terminal()}}, e}}
			case 1:
				e = &Expr{Kind: Choice, Subs: []*Expr{e, {Kind: Seq, Subs: []*Expr{lead, c.terminal()}}, {Kind: Opt, Subs: []*Expr{c.terminal()}}}}
			default:
				e = &Expr{Kind: Seq, Subs: []*Expr{lead, e}}
			}
		}
		if cfg.Actions && c.chance(1, 2) && e.Kind != Action {
			e = &Expr{Kind: Action, Subs: []*Expr{e}}
		}
		rule := &Rule{Name: ruleNames[i], Expr: e}
		if cfg.Display && c.chance(1, 3) {
			rule.Display = []string{"the rest", "item", "a thing", "ratio 100%d", "50%"}[r.Intn(5)]
		}
		g.Rules = append(g.Rules, rule)
	}
	// the classic use of labelled failures: one handler at the top that recovers
	// from throws made anywhere below, in whatever rule they happen
	if cfg.Throws && !cfg.FreeRefs && len(g.Rules) > 0 && c.chance(1, 3) {
		c.rules = nil
		c.inRecov = true
		rec := &Expr{Kind: Choice, Subs: []*Expr{c.terminal(), c.terminal(), {Kind: Any}}}
		c.inRecov = false
		if cfg.Actions && c.chance(1, 2) {
			rec = &Expr{Kind: Action, Subs: []*Expr{rec}}
		}
		g.Rules[0].Expr = &Expr{Kind: Recover, Subs: []*Expr{g.Rules[0].Expr, rec}, Labels: []string{"E1", "E2"}}
	}
	// make every rule reachable: a rule nobody references gets a reference
	// from an earlier rule (in place of a terminal, or appended)
	if !cfg.FreeRefs {
		for j := 1; j < len(g.Rules); j++ {
			used := false
			for i := 0; i < len(g.Rules) && !used; i++ {
				if i == j {
					continue
				}
				Walk(g.Rules[i].Expr, func(e *Expr) {
					if e.Kind == Ref && e.Name == g.Rules[j].Name {
						used = true
					}
				})
			}
			if used {
				continue
			}
			host := g.Rules[c.r.Intn(j)]
			var terms []*Expr
			inRecovery := map[*Expr]bool{}
			Walk(host.Expr, func(e *Expr) {
				if e.Kind == Recover {
					Walk(e.Subs[1], func(x *Expr) { inRecovery[x] = true })
				}
			})
			Walk(host.Expr, func(e *Expr) {
				if (e.Kind == Lit || e.Kind == Class || e.Kind == Any) && !inRecovery[e] {
					terms = append(terms, e)
				}
			})
			if len(terms) > 0 && c.chance(2, 3) {
				*terms[c.r.Intn(len(terms))] = Expr{Kind: Ref, Name: g.Rules[j].Name}
			} else {
				host.Expr = &Expr{Kind: Seq, Subs: []*Expr{host.Expr, {Kind: Opt, Subs: []*Expr{{Kind: Ref, Name: g.Rules[j].Name}}}}}
			}
		}
	}
	if cfg.SharedLeaf {
		leaf := &Rule{Name: "Leaf", Expr: c.terminal()}
		if c.chance(1, 2) {
			// a leaf with a code block: inlining it in several places shares the block
			var blk *Expr
			switch {
			case cfg.Preds && c.chance(1, 2):
				blk = &Expr{Kind: AndCode}
			case cfg.States:
				blk = &Expr{Kind: State}
			case cfg.Preds:
				blk = &Expr{Kind: NotCode}
			}
			if blk != nil {
				leaf.Expr = &Expr{Kind: Seq, Subs: []*Expr{blk, leaf.Expr}}
			}
		}
		g.Rules = append(g.Rules, leaf)
		if leaf.Expr.Kind == Lit && c.chance(1, 2) {
			// the leaf only becomes a literal after the rule behind it was inlined
			g.Rules = append(g.Rules, &Rule{Name: "Leaf2", Expr: leaf.Expr})
			leaf.Expr = &Expr{Kind: Ref, Name: "Leaf2"}
			if c.chance(1, 2) {
				g.Rules = append(g.Rules, &Rule{Name: "Leaf3", Expr: g.Rules[len(g.Rules)-1].Expr})
				g.Rules[len(g.Rules)-2].Expr = &Expr{Kind: Ref, Name: "Leaf3"}
			}
		}
		// sprinkle references
		for _, rl := range g.Rules {
			if strings.HasPrefix(rl.Name, "Leaf") {
				continue
			}
			Walk(rl.Expr, func(e *Expr) {
				if (e.Kind == Lit || e.Kind == Class) && c.chance(1, 3) {
					*e = Expr{Kind: Ref, Name: "Leaf"}
				}
			})
		}
	}
	if cfg.Unused && c.chance(1, 2) {
		c.rules = nil
		g.Rules = append(g.Rules, &Rule{Name: "Unused", Expr: c.expr(1, false)})
	}
	return g
}

// generateLR builds left-recursive grammars: direct, indirect through one
// rule, nested expr/term/factor, and multi-cycle SCCs with several leader
// candidates.
func generateLR(c *gctx) *Grammar {
	g := &Grammar{}
	operand := func() *Expr {
		c.rules = nil
		return c.expr(1, true)
	}
	act := func(e *Expr) *Expr {
		if c.cfg.Actions && c.chance(2, 3) {
			return &Expr{Kind: Action, Subs: []*Expr{e}}
		}
		return e
	}
	lab := func(e *Expr) *Expr {
		if c.cfg.Labels && c.chance(1, 2) {
			return &Expr{Kind: Label, Name: c.newLabel(), Subs: []*Expr{e}}
		}
		return e
	}
	st := func(items []*Expr) []*Expr {
		if c.cfg.States && c.chance(1, 2) {
			pos := c.r.Intn(len(items) + 1)
			items = append(items[:pos:pos], append([]*Expr{{Kind: State}}, items[pos:]...)...)
		}
		return items
	}
	ref := func(n string) *Expr { return &Expr{Kind: Ref, Name: n} }
	seq := func(items ...*Expr) *Expr { return &Expr{Kind: Seq, Subs: items} }
	shape := c.r.Intn(7)
	if c.cfg.NullableLoops && !c.cfg.LeftRecDirect && c.chance(1, 3) {
		shape = 7
	}
	if shape == 7 {
		// a rule of the cycle that is not its leader, entered from outside the
		// cycle, begins with a repetition whose operand can match the empty string
		// (the leader sorts first by name): what bounds that loop must also work
		// in left-recursive rules
		loop := &Expr{Kind: Star, Subs: []*Expr{{Kind: []Kind{Star, Opt}[c.r.Intn(2)], Subs: []*Expr{c.lit()}}}}
		g.Rules = append(g.Rules,
			&Rule{Name: "Start", Expr: &Expr{Kind: Choice, Subs: []*Expr{seq(ref("Bb"), c.lit()), ref("Bb")}}},
			&Rule{Name: "Aa", Expr: &Expr{Kind: Choice, Subs: []*Expr{act(seq(lab(ref("Bb")), operand())), act(operand())}}},
			&Rule{Name: "Bb", Expr: &Expr{Kind: Choice, Subs: []*Expr{act(seq(st([]*Expr{loop, lab(ref("Aa")), operand()})...)), act(operand())}}})
		return g
	}
	if c.cfg.LeftRecDirect {
		shape = []int{0, 2, 5}[c.r.Intn(3)]
	} else if c.cfg.LeftRecRunnable {
		shape = []int{0, 1, 2, 3, 5, 6}[c.r.Intn(6)]
	}
	switch shape {
	case 0: // A <- A op B / B
		g.Rules = append(g.Rules,
			&Rule{Name: "Start", Expr: seq(ref("Aa"), &Expr{Kind: Not, Subs: []*Expr{{Kind: Any}}})},
			&Rule{Name: "Aa", Expr: &Expr{Kind: Choice, Subs: []*Expr{
				act(seq(append([]*Expr{lab(ref("Aa"))}, st([]*Expr{c.lit(), lab(ref("Bb"))})...)...)),
				act(ref("Bb"))}}},
			&Rule{Name: "Bb", Expr: act(seq(st([]*Expr{operand()})...))})
	case 5: // the operand rule also runs again, at the same offset, after the recursive rule was given up
		g.Rules = append(g.Rules,
			&Rule{Name: "Start", Expr: &Expr{Kind: Choice, Subs: []*Expr{seq(ref("Aa"), c.lit()), seq(lab(ref("Bb")), &Expr{Kind: Opt, Subs: []*Expr{c.lit()}}), ref("Aa")}}},
			&Rule{Name: "Aa", Expr: &Expr{Kind: Choice, Subs: []*Expr{
				act(seq(append([]*Expr{lab(ref("Aa"))}, st([]*Expr{c.lit(), lab(ref("Bb"))})...)...)),
				act(ref("Bb"))}}},
			&Rule{Name: "Bb", Expr: act(seq(st([]*Expr{operand()})...))})
	case 6: // a cycle of pure forwarding rules with one way out
		g.Rules = append(g.Rules,
			&Rule{Name: "Start", Expr: &Expr{Kind: Choice, Subs: []*Expr{act(seq(operand(), c.lit())), seq(lab(ref("Aa")), c.lit(), ref("Aa")), ref("Aa")}}},
			&Rule{Name: "Aa", Expr: ref("Bb")},
			&Rule{Name: "Bb", Expr: ref("Cc")},
			&Rule{Name: "Cc", Expr: &Expr{Kind: Choice, Subs: []*Expr{ref("Aa"), act(operand())}}})
		if c.chance(1, 2) {
			// no way out at all: the cycle can only fail, which the runtime must
			// find out within its budget
			g.Rules[3].Expr = ref("Aa")
		}
	case 1: // mutual: A <- B x / y ; B <- A z / w
		g.Rules = append(g.Rules,
			&Rule{Name: "Start", Expr: ref("Aa")},
			&Rule{Name: "Aa", Expr: &Expr{Kind: Choice, Subs: []*Expr{act(seq(lab(ref("Bb")), operand())), act(operand())}}},
			&Rule{Name: "Bb", Expr: &Expr{Kind: Choice, Subs: []*Expr{act(seq(st([]*Expr{lab(ref("Aa")), operand()})...)), act(operand())}}})
	case 2: // expr / term / factor
		g.Rules = append(g.Rules,
			&Rule{Name: "Start", Expr: ref("Ee")},
			&Rule{Name: "Ee", Expr: &Expr{Kind: Choice, Subs: []*Expr{act(seq(lab(ref("Ee")), &Expr{Kind: Lit, Text: "a"}, lab(ref("Tt")))), ref("Tt")}}},
			&Rule{Name: "Tt", Expr: &Expr{Kind: Choice, Subs: []*Expr{act(seq(st([]*Expr{lab(ref("Tt")), {Kind: Lit, Text: "b"}, lab(ref("Ff"))})...)), ref("Ff")}}},
			&Rule{Name: "Ff", Expr: &Expr{Kind: Choice, Subs: []*Expr{act(seq(&Expr{Kind: Lit, Text: "c"}, ref("Ee"), &Expr{Kind: Lit, Text: "c"})), act(operand())}}})
	case 3: // SCC with two cycles sharing two rules (several leader candidates)
		g.Rules = append(g.Rules,
			&Rule{Name: "Start", Expr: ref("Aa")},
			&Rule{Name: "Aa", Expr: &Expr{Kind: Choice, Subs: []*Expr{act(seq(ref("Bb"), operand())), act(operand())}}},
			&Rule{Name: "Bb", Expr: &Expr{Kind: Choice, Subs: []*Expr{act(seq(ref("Cc"), operand())), seq(ref("Aa"), operand()), operand()}}},
			&Rule{Name: "Cc", Expr: &Expr{Kind: Choice, Subs: []*Expr{seq(ref("Aa"), operand()), operand()}}})
	case -1:
	default: // nullable prefix before the recursive reference
		g.Rules = append(g.Rules,
			&Rule{Name: "Start", Expr: ref("Aa")},
			&Rule{Name: "Aa", Expr: &Expr{Kind: Choice, Subs: []*Expr{ref("Bb"), &Expr{Kind: Opt, Subs: []*Expr{c.lit()}}}}},
			&Rule{Name: "Bb", Expr: seq(ref("Aa"), ref("Cc"))},
			&Rule{Name: "Cc", Expr: seq(ref("Bb"), c.lit())})
	}
	if c.cfg.Display {
		for _, rl := range g.Rules {
			if c.chance(1, 3) {
				rl.Display = []string{"the rest", "item", "a thing", "ratio 100%d", "50%"}[c.r.Intn(5)]
			}
		}
	}
	return g
}

// ---------------------------------------------------------------------------
// Inputs

// SampleInput walks the grammar making random choices and returns a string
// that is likely (not certain) to be matched by the start rule.
func (g *Grammar) SampleInput(r Rand, maxLen int) []byte {
	var b []byte
	budget := 200
	al := uniAlphabet
	var walk func(e *Expr, depth int)
	walk = func(e *Expr, depth int) {
		budget--
		if budget < 0 || len(b) > maxLen {
			return
		}
		switch e.Kind {
		case Lit:
			s := e.Text
			if e.Fold && r.Intn(2) == 0 {
				s = strings.ToUpper(s)
			}
			b = append(b, s...)
		case Class:
			var cands []rune
			for _, ch := range al {
				if classMatch(e, ch) {
					cands = append(cands, ch)
				}
			}
			if len(cands) > 0 {
				b = append(b, string(cands[r.Intn(len(cands))])...)
			} else {
				b = append(b, 'z')
			}
		case Any:
			b = append(b, string(al[r.Intn(len(al))])...)
		case Seq:
			for _, s := range e.Subs {
				walk(s, depth)
			}
		case Choice:
			walk(e.Subs[r.Intn(len(e.Subs))], depth)
		case Star:
			for n := r.Intn(5); n > 0; n-- {
				walk(e.Subs[0], depth)
			}
		case Plus:
			for n := 1 + r.Intn(4); n > 0; n-- {
				walk(e.Subs[0], depth)
			}
		case Opt:
			if r.Intn(2) == 0 {
				walk(e.Subs[0], depth)
			}
		case Label, Action:
			walk(e.Subs[0], depth)
		case Recover:
			walk(e.Subs[0], depth)
		case Ref:
			if depth > 6 {
				return
			}
			if rl := g.RuleByName(e.Name); rl != nil {
				walk(rl.Expr, depth+1)
			}
		}
	}
	walk(g.Rules[0].Expr, 0)
	if len(b) > maxLen {
		b = b[:maxLen]
		// never cut a multi-byte rune in two
		for len(b) > 0 && !utf8.Valid(b) {
			b = b[:len(b)-1]
		}
	}
	return b
}

// IsDeepNest reports whether the grammar was made with Config.DeepNest.
func (g *Grammar) IsDeepNest() bool {
	return len(g.Rules) > 1 && g.Rules[0].Name == "Nest" && g.Rules[0].Expr.Kind == Choice
}

// SampleNestedInput makes an input for a grammar made with Config.DeepNest:
// depth opening parentheses, something the old start rule is likely to match,
// and the closing ones (sometimes one too few).
func (g *Grammar) SampleNestedInput(r Rand, depth int) []byte {
	sub := &Grammar{Rules: g.Rules[1:]}
	var b []byte
	for i := 0; i < depth; i++ {
		b = append(b, '(')
	}
	b = append(b, sub.SampleInput(r, 16)...)
	closing := depth
	if r.Intn(4) == 0 && closing > 0 {
		closing--
	}
	for i := 0; i < closing; i++ {
		b = append(b, ')')
	}
	return b
}

// IsTopLoop reports whether the grammar was made with Config.TopLoop.
func (g *Grammar) IsTopLoop() bool {
	return len(g.Rules) > 1 && g.Rules[0].Name == "Top" && g.Rules[0].Expr.Kind == Star
}

// SampleLongInput makes an input of the given number of rounds for a grammar
// made with Config.TopLoop: one character per round, sometimes followed by
// something the old start rule is likely to match.
func (g *Grammar) SampleLongInput(r Rand, rounds int) []byte {
	sub := &Grammar{Rules: g.Rules[1:]}
	var b []byte
	for i := 0; i < rounds; i++ {
		b = append(b, string(uniAlphabet[r.Intn(len(uniAlphabet))])...)
		if r.Intn(3) == 0 {
			b = append(b, sub.SampleInput(r, 12)...)
		}
	}
	return b
}

func classMatch(e *Expr, ch rune) bool {
	lower := func(r rune) rune {
		if r >= 'A' && r <= 'Z' {
			return r + 32
		}
		return r
	}
	c := ch
	if e.Fold {
		c = lower(c)
	}
	hit := false
	for _, x := range e.Chars {
		if e.Fold {
			x = lower(x)
		}
		if x == c {
			hit = true
		}
	}
	for i := 0; i+1 < len(e.Ranges); i += 2 {
		lo, hi := e.Ranges[i], e.Ranges[i+1]
		if e.Fold {
			lo, hi = lower(lo), lower(hi)
		}
		if c >= lo && c <= hi {
			hit = true
		}
	}
	for _, u := range e.UClass {
		switch u {
		case "L":
			if (ch >= 'a' && ch <= 'z') || (ch >= 'A' && ch <= 'Z') || ch == 'é' || ch == '日' {
				hit = true
			}
		case "Ll":
			if (ch >= 'a' && ch <= 'z') || ch == 'é' {
				hit = true
			}
		case "Lu":
			if ch >= 'A' && ch <= 'Z' {
				hit = true
			}
		case "Nd":
			if ch >= '0' && ch <= '9' {
				hit = true
			}
		}
	}
	return hit != e.Invert
}

// Mutate applies a few random rune-level edits (the result is valid UTF-8
// whenever the input is).
func Mutate(r Rand, in []byte, maxLen int) []byte {
	b := []rune(string(in))
	al := []rune{'a', 'b', 'c', '\n', 'é', '日', 'A', 'z'}
	for n := 1 + r.Intn(3); n > 0; n-- {
		switch r.Intn(3) {
		case 0:
			pos := r.Intn(len(b) + 1)
			b = append(b[:pos:pos], append([]rune{al[r.Intn(len(al))]}, b[pos:]...)...)
		case 1:
			if len(b) > 0 {
				pos := r.Intn(len(b))
				b = append(b[:pos:pos], b[pos+1:]...)
			}
		case 2:
			if len(b) > 0 {
				b[r.Intn(len(b))] = al[r.Intn(3)]
			}
		}
	}
	out := []byte(string(b))
	for len(out) > maxLen {
		b = b[:len(b)-1]
		out = []byte(string(b))
	}
	return out
}

// GenerateNullCycle builds small grammars made only of what the nullability
// and left-recursion analyses look at: every rule is a choice of short
// sequences of rule references (to any rule), optional or empty terminals
// and plain terminals. Tool world only: such parsers are never run.
func GenerateNullCycle(r Rand, caseNames bool) *Grammar {
	names := []string{"Start", "Aa", "Bb", "Cc", "Dd"}
	if caseNames {
		names = []string{"Start", "Aa", "aa", "AA", "Bb"}
	}
	n := 3 + r.Intn(3)
	names = names[:n]
	g := &Grammar{}
	term := func() *Expr { return &Expr{Kind: Lit, Text: string(rune('a' + r.Intn(5)))} }
	for i := 0; i < n; i++ {
		ch := &Expr{Kind: Choice}
		for a := 1 + r.Intn(3); a > 0; a-- {
			sq := &Expr{Kind: Seq}
			for k := 1 + r.Intn(3); k > 0; k-- {
				switch x := r.Intn(20); {
				case x < 12:
					sq.Subs = append(sq.Subs, &Expr{Kind: Ref, Name: names[r.Intn(n)]})
				case x < 15:
					sq.Subs = append(sq.Subs, &Expr{Kind: Opt, Subs: []*Expr{term()}})
				case x < 16:
					sq.Subs = append(sq.Subs, &Expr{Kind: Lit, Text: ""})
				case x < 17:
					sq.Subs = append(sq.Subs, &Expr{Kind: Star, Subs: []*Expr{term()}})
				default:
					sq.Subs = append(sq.Subs, term())
				}
			}
			if len(sq.Subs) == 1 {
				ch.Subs = append(ch.Subs, sq.Subs[0])
			} else {
				ch.Subs = append(ch.Subs, sq)
			}
		}
		e := ch
		if len(ch.Subs) == 1 {
			e = ch.Subs[0]
		}
		g.Rules = append(g.Rules, &Rule{Name: names[i], Expr: e})
	}
	g.Finish()
	return g
}

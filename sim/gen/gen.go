// Package gen generates PEG grammars (as a small AST printed to pigeon syntax),
// the analyses needed to keep generated parsers from killing the driver
// (nullability, first-position reference graph), the label scopes that decide
// which labels a code block receives, and inputs for the generated parsers.
package gen

import (
	"fmt"
	"sort"
	"strings"
)

// Kind of expression.
type Kind int

// Expression kinds.
const (
	Lit Kind = iota
	Class
	Any
	Seq
	Choice
	Star
	Plus
	Opt
	And
	Not
	Label
	Action
	AndCode
	NotCode
	State
	Ref
	Throw
	Recover
)

var kindNames = []string{"lit", "class", "any", "seq", "choice", "star", "plus", "opt", "and", "not", "label", "action", "andcode", "notcode", "state", "ref", "throw", "recover"}

func (k Kind) String() string { return kindNames[k] }

// Expr is a grammar expression.
type Expr struct {
	Kind   Kind     `json:"k"`
	Subs   []*Expr  `json:"s,omitempty"`
	Text   string   `json:"t,omitempty"` // Lit: the literal; Class: the class source without brackets/suffix
	Fold   bool     `json:"i,omitempty"` // ignore case
	Invert bool     `json:"n,omitempty"` // Class: ^
	Chars  []rune   `json:"c,omitempty"` // Class: single characters
	Ranges []rune   `json:"r,omitempty"` // Class: pairs
	UClass []string `json:"u,omitempty"` // Class: unicode classes
	Name   string   `json:"m,omitempty"` // Label: label; Ref: rule; Throw: label
	Labels []string `json:"l,omitempty"` // Recover: labels
	Site   int      `json:"x,omitempty"` // code blocks: site id (1-based)
	ID     int      `json:"d,omitempty"` // unique per grammar, preorder
}

// Rule is a grammar rule.
type Rule struct {
	Name    string `json:"name"`
	Display string `json:"display,omitempty"`
	Expr    *Expr  `json:"expr"`
}

// SiteInfo describes one code block.
type SiteInfo struct {
	Site   int      `json:"site"`
	Kind   Kind     `json:"kind"`
	Rule   string   `json:"rule"`
	Labels []string `json:"labels"`
	// InRecovery: the block sits in a recovery expression, which runs wherever
	// the label is thrown (possibly while another rule is being parsed).
	InRecovery bool `json:"in_recovery,omitempty"`
}

// Grammar is a generated grammar.
type Grammar struct {
	Rules []*Rule    `json:"rules"`
	Sites []SiteInfo `json:"sites"` // index = site-1
	NExpr int        `json:"nexpr"`
}

// RuleByName finds a rule.
func (g *Grammar) RuleByName(n string) *Rule {
	for _, r := range g.Rules {
		if r.Name == n {
			return r
		}
	}
	return nil
}

// Walk calls f for e and all its sub-expressions, preorder.
func Walk(e *Expr, f func(*Expr)) {
	f(e)
	for _, s := range e.Subs {
		Walk(s, f)
	}
}

// HasKind reports whether any expression of the grammar has kind k.
func (g *Grammar) HasKind(k Kind) bool {
	found := false
	for _, r := range g.Rules {
		Walk(r.Expr, func(e *Expr) {
			if e.Kind == k {
				found = true
			}
		})
	}
	return found
}

// Finish assigns expression ids, site ids and the label lists of code blocks.
// The label rule is the documented one: a code block receives the labels
// bound so far at its own sequence level; choice alternatives, repetitions,
// optionals, predicates, labelled sub-expressions and recovery operators open
// a new level.
func (g *Grammar) Finish() {
	g.Sites = nil
	id := 0
	site := 0
	for _, r := range g.Rules {
		var stack [][]string
		push := func() { stack = append(stack, nil) }
		pop := func() { stack = stack[:len(stack)-1] }
		cur := func() []string { return append([]string(nil), stack[len(stack)-1]...) }
		var number func(e *Expr)
		number = func(e *Expr) {
			id++
			e.ID = id
			for _, s := range e.Subs {
				number(s)
			}
		}
		number(r.Expr)
		var visit func(e *Expr)
		inRec := 0
		newSite := func(e *Expr) {
			site++
			e.Site = site
			g.Sites = append(g.Sites, SiteInfo{Site: site, Kind: e.Kind, Rule: r.Name, Labels: cur(), InRecovery: inRec > 0})
		}
		visit = func(e *Expr) {
			switch e.Kind {
			case Action:
				visit(e.Subs[0])
				newSite(e)
			case AndCode, NotCode, State:
				newSite(e)
			case Label:
				stack[len(stack)-1] = append(stack[len(stack)-1], e.Name)
				push()
				visit(e.Subs[0])
				pop()
			case And, Not, Star, Plus, Opt:
				push()
				visit(e.Subs[0])
				pop()
			case Choice:
				for _, a := range e.Subs {
					push()
					visit(a)
					pop()
				}
			case Recover:
				push()
				visit(e.Subs[0])
				inRec++
				visit(e.Subs[1])
				inRec--
				pop()
			case Seq:
				for _, s := range e.Subs {
					visit(s)
				}
			}
		}
		push()
		visit(r.Expr)
		pop()
	}
	g.NExpr = id
}

// ---------------------------------------------------------------------------
// Analyses

// Nullable computes, by least fixpoint, which rules may succeed without
// consuming input. Code predicates, state blocks, lookahead predicates and
// throws (whose recovery expression may be anything) count as nullable.
func (g *Grammar) Nullable() map[string]bool {
	null := map[string]bool{}
	var en func(e *Expr) bool
	en = func(e *Expr) bool {
		switch e.Kind {
		case Lit:
			return e.Text == ""
		case Class, Any:
			return false
		case Seq:
			for _, s := range e.Subs {
				if !en(s) {
					return false
				}
			}
			return true
		case Choice:
			for _, s := range e.Subs {
				if en(s) {
					return true
				}
			}
			return false
		case Star, Opt, And, Not, AndCode, NotCode, State, Throw:
			return true
		case Plus, Label, Action:
			return en(e.Subs[0])
		case Ref:
			return null[e.Name]
		case Recover:
			return en(e.Subs[0]) || en(e.Subs[1])
		}
		return true
	}
	for changed := true; changed; {
		changed = false
		for _, r := range g.Rules {
			if !null[r.Name] && en(r.Expr) {
				null[r.Name] = true
				changed = true
			}
		}
	}
	return null
}

// ExprNullable evaluates nullability of an expression given rule nullability.
func ExprNullable(e *Expr, null map[string]bool) bool {
	switch e.Kind {
	case Lit:
		return e.Text == ""
	case Class, Any:
		return false
	case Seq:
		for _, s := range e.Subs {
			if !ExprNullable(s, null) {
				return false
			}
		}
		return true
	case Choice:
		for _, s := range e.Subs {
			if ExprNullable(s, null) {
				return true
			}
		}
		return false
	case Star, Opt, And, Not, AndCode, NotCode, State, Throw:
		return true
	case Plus, Label, Action:
		return ExprNullable(e.Subs[0], null)
	case Ref:
		return null[e.Name]
	case Recover:
		return ExprNullable(e.Subs[0], null) || ExprNullable(e.Subs[1], null)
	}
	return true
}

// FirstRefs returns the rules that e may invoke at its start position,
// including inside lookahead predicates and recovery expressions.
func FirstRefs(e *Expr, null map[string]bool, out map[string]bool) {
	switch e.Kind {
	case Seq:
		for _, s := range e.Subs {
			FirstRefs(s, null, out)
			if !ExprNullable(s, null) {
				return
			}
		}
	case Choice:
		for _, s := range e.Subs {
			FirstRefs(s, null, out)
		}
	case Star, Plus, Opt, And, Not, Label, Action:
		FirstRefs(e.Subs[0], null, out)
	case Ref:
		out[e.Name] = true
	case Recover:
		FirstRefs(e.Subs[0], null, out)
		FirstRefs(e.Subs[1], null, out)
	}
}

// LeftRecursive reports whether some rule can reach itself at the same input
// position (conservatively: also through predicates and recovery expressions).
func (g *Grammar) LeftRecursive() bool {
	null := g.Nullable()
	graph := map[string]map[string]bool{}
	for _, r := range g.Rules {
		m := map[string]bool{}
		FirstRefs(r.Expr, null, m)
		graph[r.Name] = m
	}
	// also: a throw may run any recovery expression of any enclosing operator,
	// dynamically; generated recovery expressions never reference rules, so
	// nothing to add here.
	state := map[string]int{}
	var dfs func(n string) bool
	dfs = func(n string) bool {
		state[n] = 1
		keys := make([]string, 0, len(graph[n]))
		for k := range graph[n] {
			keys = append(keys, k)
		}
		sort.Strings(keys)
		for _, k := range keys {
			if state[k] == 1 {
				return true
			}
			if state[k] == 0 && dfs(k) {
				return true
			}
		}
		state[n] = 2
		return false
	}
	for _, r := range g.Rules {
		if state[r.Name] == 0 && dfs(r.Name) {
			return true
		}
	}
	return false
}

// NullableLoops reports whether some repetition has a body that may succeed
// without consuming input (the parser then loops until its budget is gone).
func (g *Grammar) NullableLoops() bool {
	null := g.Nullable()
	found := false
	for _, r := range g.Rules {
		Walk(r.Expr, func(e *Expr) {
			if (e.Kind == Star || e.Kind == Plus) && ExprNullable(e.Subs[0], null) {
				found = true
			}
		})
	}
	return found
}

// NullableLoopOutsideCycles reports whether some repetition whose operand can
// match the empty string sits in a rule that is not certain to lie on a
// left-recursive cycle. "Certain" is deliberately narrow: a reference counts
// as leading only when everything before it is nullable by its very form (*, ?,
// predicates, state blocks, the empty literal) - not through +, a throw or the
// nullability of another rule, about which analyses differ (pigeon calls e+
// non-nullable whatever e is).
func (g *Grammar) NullableLoopOutsideCycles() bool {
	null := g.Nullable()
	var sureNull func(e *Expr) bool
	sureNull = func(e *Expr) bool {
		switch e.Kind {
		case Lit:
			return e.Text == ""
		case Star, Opt, And, Not, AndCode, NotCode, State:
			return true
		case Label, Action:
			return sureNull(e.Subs[0])
		case Seq:
			for _, s := range e.Subs {
				if !sureNull(s) {
					return false
				}
			}
			return true
		case Choice:
			for _, s := range e.Subs {
				if sureNull(s) {
					return true
				}
			}
		}
		return false
	}
	var first func(e *Expr, out map[string]bool)
	first = func(e *Expr, out map[string]bool) {
		switch e.Kind {
		case Seq:
			for _, s := range e.Subs {
				first(s, out)
				if !sureNull(s) {
					return
				}
			}
		case Choice:
			for _, s := range e.Subs {
				first(s, out)
			}
		case Star, Plus, Opt, And, Not, Label, Action:
			first(e.Subs[0], out)
		case Ref:
			out[e.Name] = true
		case Recover:
			first(e.Subs[0], out)
		}
	}
	graph := map[string]map[string]bool{}
	for _, r := range g.Rules {
		m := map[string]bool{}
		first(r.Expr, m)
		graph[r.Name] = m
	}
	reachesItself := func(start string) bool {
		seen := map[string]bool{}
		stack := []string{start}
		for len(stack) > 0 {
			n := stack[len(stack)-1]
			stack = stack[:len(stack)-1]
			for m := range graph[n] {
				if m == start {
					return true
				}
				if !seen[m] {
					seen[m] = true
					stack = append(stack, m)
				}
			}
		}
		return false
	}
	found := false
	for _, r := range g.Rules {
		if reachesItself(r.Name) {
			continue
		}
		Walk(r.Expr, func(e *Expr) {
			if (e.Kind == Star || e.Kind == Plus) && ExprNullable(e.Subs[0], null) {
				found = true
			}
		})
	}
	return found
}

// ---------------------------------------------------------------------------
// Printing

// CodeFunc renders the code block of a site. kind is the expression kind.
type CodeFunc func(s SiteInfo) string

// PrintOptions controls the concrete syntax.
type PrintOptions struct {
	Header string   // initializer block including braces, may be empty
	Code   CodeFunc // code for code blocks
	Arrow  []string // rule definition operators to cycle through (default "<-")
	Semi   bool     // terminate rules with ';'
	// JoinLines puts several rules on one source line, separated by ';'.
	JoinLines bool
}

func quoteLit(s string) string {
	var b strings.Builder
	b.WriteByte('"')
	for _, r := range s {
		switch r {
		case '\n':
			b.WriteString(`\n`)
		case '\t':
			b.WriteString(`\t`)
		case '\r':
			b.WriteString(`\r`)
		case '"':
			b.WriteString(`\"`)
		case '\\':
			b.WriteString(`\\`)
		default:
			if r < 0x20 || r == 0x7f {
				fmt.Fprintf(&b, `\x%02x`, r)
			} else {
				b.WriteRune(r)
			}
		}
	}
	b.WriteByte('"')
	return b.String()
}

func classChar(r rune) string {
	switch r {
	case '\n':
		return `\n`
	case '\t':
		return `\t`
	case '\r':
		return `\r`
	case ']':
		return `\]`
	case '[':
		return `\[`
	case '\\':
		return `\\`
	case '-':
		return `\-`
	case '^':
		return `\^`
	}
	if r < 0x20 || r == 0x7f {
		return fmt.Sprintf(`\x%02x`, r)
	}
	return string(r)
}

// ClassSource renders a character class.
func ClassSource(e *Expr) string {
	var b strings.Builder
	b.WriteByte('[')
	if e.Invert {
		b.WriteByte('^')
	}
	for _, c := range e.Chars {
		b.WriteString(classChar(c))
	}
	for i := 0; i+1 < len(e.Ranges); i += 2 {
		b.WriteString(classChar(e.Ranges[i]))
		b.WriteByte('-')
		b.WriteString(classChar(e.Ranges[i+1]))
	}
	for _, u := range e.UClass {
		if len(u) == 1 {
			b.WriteString(`\p` + u)
		} else {
			b.WriteString(`\p{` + u + `}`)
		}
	}
	b.WriteByte(']')
	if e.Fold {
		b.WriteByte('i')
	}
	return b.String()
}

// precedence levels: 0 recover, 1 choice, 2 action, 3 seq, 4 label, 5 prefix, 6 suffix, 7 primary
func level(e *Expr) int {
	switch e.Kind {
	case Recover:
		return 0
	case Choice:
		return 1
	case Action:
		return 2
	case Seq:
		return 3
	case Label, Throw:
		// a throw stands where a labelled expression may stand: it takes no
		// label, prefix or suffix operator unless parenthesised
		return 4
	case And, Not:
		return 5
	case Star, Plus, Opt:
		return 6
	}
	return 7
}

func (g *Grammar) printExpr(e *Expr, min int, po *PrintOptions, b *strings.Builder) {
	if level(e) < min {
		b.WriteString("( ")
		g.printExpr(e, 0, po, b)
		b.WriteString(" )")
		return
	}
	code := func() string { return po.Code(g.Sites[e.Site-1]) }
	switch e.Kind {
	case Lit:
		b.WriteString(quoteLit(e.Text))
		if e.Fold {
			b.WriteByte('i')
		}
	case Class:
		b.WriteString(ClassSource(e))
	case Any:
		b.WriteByte('.')
	case Seq:
		for i, s := range e.Subs {
			if i > 0 {
				b.WriteByte(' ')
			}
			g.printExpr(s, 4, po, b)
		}
	case Choice:
		for i, s := range e.Subs {
			if i > 0 {
				b.WriteString(" / ")
			}
			g.printExpr(s, 2, po, b)
		}
	case Star, Plus, Opt:
		g.printExpr(e.Subs[0], 7, po, b)
		b.WriteString(map[Kind]string{Star: "*", Plus: "+", Opt: "?"}[e.Kind])
	case And, Not:
		b.WriteString(map[Kind]string{And: "&", Not: "!"}[e.Kind])
		// "&{" and "!{" would read as code predicates; a parenthesis never does
		g.printExpr(e.Subs[0], 6, po, b)
	case Label:
		b.WriteString(e.Name + ":")
		g.printExpr(e.Subs[0], 5, po, b)
	case Action:
		g.printExpr(e.Subs[0], 3, po, b)
		b.WriteString(" " + code())
	case AndCode:
		b.WriteString("&" + code())
	case NotCode:
		b.WriteString("!" + code())
	case State:
		b.WriteString("#" + code())
	case Ref:
		b.WriteString(e.Name)
	case Throw:
		b.WriteString("%{" + e.Name + "}")
	case Recover:
		g.printExpr(e.Subs[0], 1, po, b)
		b.WriteString(" //{" + strings.Join(e.Labels, ", ") + "} ")
		g.printExpr(e.Subs[1], 1, po, b)
	}
}

// Print renders the grammar in pigeon syntax.
func (g *Grammar) Print(po PrintOptions) string {
	var b strings.Builder
	if po.Header != "" {
		b.WriteString(po.Header)
		b.WriteString("\n\n")
	}
	if po.Code == nil {
		po.Code = func(s SiteInfo) string {
			switch s.Kind {
			case Action:
				return "{ return nil, nil }"
			case State:
				return "{ return nil }"
			}
			return "{ return true, nil }"
		}
	}
	arrows := po.Arrow
	if len(arrows) == 0 {
		arrows = []string{"<-"}
	}
	for i, r := range g.Rules {
		b.WriteString(r.Name)
		if r.Display != "" {
			b.WriteString(" " + quoteLit(r.Display))
		}
		b.WriteString(" " + arrows[i%len(arrows)] + " ")
		g.printExpr(r.Expr, 0, &po, &b)
		if po.JoinLines && i%3 != 2 && i+1 < len(g.Rules) {
			b.WriteString(" ; ")
			continue
		}
		if po.Semi {
			b.WriteString(";")
		}
		b.WriteString("\n")
	}
	return b.String()
}

// Package kernel is the simulated environment of the parser world: every code
// block of a generated grammar is a single call into this package. The kernel
// records what the block observed (an event of the run's history) and decides
// the block's outcome from the run's plan: predicate truth (injected backtrack
// points), state-store operations, misbehaving writes, returned errors and
// panics (injected faults). Outcomes are keyed by (site, n-th invocation of
// that site in this parse) so that a faulted run, its fault-free twin, a
// bounded run, a concurrent run and the reference model all decide alike.
package kernel

import (
	"errors"
	"fmt"
	"sort"
	"strconv"
	"strings"

	"verifsim/simrt"
)

// Event kinds.
const (
	KAct   = 'A'
	KPred  = 'P'
	KState = 'S'
)

// Event is one code-block invocation as observed by the block itself.
type Event struct {
	Seq    int    `json:"seq"`
	Site   int    `json:"site"`
	Kind   byte   `json:"kind"`
	N      int    `json:"n"` // n-th invocation of this site (1-based)
	Line   int    `json:"line"`
	Col    int    `json:"col"`
	Off    int    `json:"off"`
	Text   string `json:"text"`
	Labels string `json:"labels"`
	State  string `json:"state"` // canonical snapshot of c.state ("-" if the parser has none)
	Tick   uint64 `json:"tick"`  // Stats.ExprCnt when the block ran (0 if unavailable)
	GCnt   int    `json:"gcnt"`  // the kernel's counter in globalStore before this event
	Fault  string `json:"fault,omitempty"`
}

// Key is the alignment key of an event (see DESIGN 12a).
func (e *Event) Key() string {
	if e.Kind == KAct {
		return fmt.Sprintf("A%d#%d@%d%q", e.Site, e.N, e.Off, e.Text)
	}
	return fmt.Sprintf("%c%d#%d", e.Kind, e.Site, e.N)
}

// String renders the complete event.
func (e *Event) String() string {
	return fmt.Sprintf("%c%d#%d pos=%d:%d(%d) text=%q labels=%s state=%s g=%d%s", e.Kind, e.Site, e.N, e.Line, e.Col, e.Off, e.Text, e.Labels, e.State, e.GCnt, e.Fault)
}

// Fault is an injected failure of a code block.
type Fault struct {
	Site int    `json:"site"`
	N    int    `json:"n"`
	Kind string `json:"kind"` // err, errdup, errnested, panic-err, panic-str, panic-int, panic-struct, panic-stringer, panic-badstringer
}

// Plan decides the outcomes of all code blocks of one parse.
type Plan struct {
	Seed         uint64  `json:"seed"`
	PredTruePct  int     `json:"pred_true_pct"` // probability (percent) that a code predicate's block returns true
	StateKeys    int     `json:"state_keys"`    // number of distinct keys state blocks operate on
	ClonerPct    int     `json:"cloner_pct"`    // percent of state values that are Cloner values
	MisbehavePct int     `json:"misbehave_pct"` // percent of action/predicate invocations that write to c.state
	// ScribblePct: percent of action invocations that change the bytes of their
	// label values in place (upper-casing a matched keyword where it stands: the
	// bytes are the caller's own input)
	ScribblePct int `json:"scribble_pct,omitempty"`
	Faults       []Fault `json:"faults,omitempty"`
	MaxEvents    int     `json:"max_events"`
	// NestedPct: percent of action invocations that make a re-entrant Parse call
	// on the same generated package (user code does that, e.g. for include
	// directives); the nested parse has its own context.
	NestedPct int `json:"nested_pct,omitempty"`
	// ErrPct: percent of code-block invocations that return an error (kind
	// "err") chosen by hash rather than listed in Faults.
	ErrPct int `json:"err_pct,omitempty"`
	// NilValPct: chance (percent) that an action returns a nil value.
	NilValPct int `json:"nil_val_pct,omitempty"`
}

// Injected is one error handed to the parser by a block.
// LateErr is an error whose text is completed after it was returned.
type LateErr struct {
	base string
	done bool
}

func (e *LateErr) Error() string {
	if e.done {
		return e.base + "+completed"
	}
	return e.base
}

type Injected struct {
	Seq  int // event sequence number
	Site int
	N    int
	Kind string
	Err  error
	Msg  string
}

// Ctx is the per-parse simulation context; it travels in globalStore["sim"].
type Ctx struct {
	gsSeen map[string]any // the global store as the last block was handed it
	late     []*LateErr
	Plan     *Plan
	Events   []Event
	Injected []Injected
	Panicked *Fault
	Tick     *uint64
	counts   []int
	Overflow bool // more than MaxEvents events
	Backward bool // the globalStore counter went backwards or was lost
	// Nested, when set by the glue, runs a re-entrant parse.
	Nested func()
	// NestedErr runs a re-entrant parse that fails and returns its error as it is.
	NestedErr  func() error
	NestedRuns int
	// StatsDigest is filled by the glue after the parse: the caller's
	// Stats.ChoiceAltCnt rendered canonically.
	StatsDigest string
	// OptsModified is set by the glue when the Parse call wrote into the option
	// slice it was given (into its spare capacity).
	OptsModified bool
}

// GlobalStoreSeen returns the global store map the last code block was handed
// (nil when no block ran). It belongs to the caller of Parse as much as to the
// parser: a block may have returned it, or kept it.
func (c *Ctx) GlobalStoreSeen() map[string]any { return c.gsSeen }

// NewCtx makes a context for a plan.
func NewCtx(p *Plan) *Ctx { return &Ctx{Plan: p} }

// CVal is the Cloner value used in the state store.
type CVal struct{ Vals []string }

// Clone implements the generated parser's Cloner interface.
// A nil *CVal is a value too ("nothing open yet"): its clone is itself.
func (c *CVal) Clone() any {
	if c == nil {
		return (*CVal)(nil)
	}
	return &CVal{Vals: append([]string(nil), c.Vals...)}
}

// VVal is a Cloner with a value receiver, stored by value: the only in-place
// mutation possible is through the backing array of its slice.
type VVal struct{ Vals []string }

// Clone implements the generated parser's Cloner interface.
func (v VVal) Clone() any { return VVal{Vals: append([]string(nil), v.Vals...)} }

// SVal is a Cloner of slice kind. Two keys of a store may hold windows on one
// backing array (`all` and `all[:1]`): two different values that begin at the
// same address.
type SVal []string

// Clone implements the generated parser's Cloner interface.
func (v SVal) Clone() any { return append(SVal(nil), v...) }

// MVal is a Cloner of map kind whose elements are references: copying the map
// alone does not separate two stores, Clone has to be called.
type MVal map[string]*string

// Clone implements the generated parser's Cloner interface.
func (m MVal) Clone() any {
	out := MVal{}
	for k, v := range m {
		c := *v
		out[k] = &c
	}
	return out
}

// Node is what actions return.
type Node struct {
	Site int
	N    int
	Text string
}

// PanicStruct is one of the panic payload types.
type PanicStruct struct{ Site, N int }

// GoodStringer is a panic payload that is a fmt.Stringer and no error.
type GoodStringer struct{ S string }

func (g GoodStringer) String() string { return g.S }

// BadStringer is a panic payload whose String method itself panics (the fmt
// package contains such panics; whoever prints the value some other way must too).
type BadStringer struct{ xs []string }

func (b *BadStringer) String() string { return b.xs[0] }

func mix(z uint64) uint64 {
	z += 0x9e3779b97f4a7c15
	z = (z ^ (z >> 30)) * 0xbf58476d1ce4e5b9
	z = (z ^ (z >> 27)) * 0x94d049bb133111eb
	return z ^ (z >> 31)
}

// H is the decision hash for (seed, site, n, purpose).
func H(seed uint64, site, n, purpose int) uint64 {
	return mix(mix(mix(seed^uint64(site)*0x9e3779b97f4a7c15)^uint64(n)*0xc2b2ae3d27d4eb4f) ^ uint64(purpose))
}

// Render gives a canonical text for values that flow through the parser.
func Render(v any) string {
	switch v := v.(type) {
	case nil:
		return "nil"
	case []byte:
		return strconv.Quote(string(v))
	case string:
		return "s" + strconv.Quote(v)
	case []any:
		var b strings.Builder
		b.WriteByte('[')
		for i, x := range v {
			if i > 0 {
				b.WriteByte(' ')
			}
			b.WriteString(Render(x))
		}
		b.WriteByte(']')
		return b.String()
	case *Node:
		return fmt.Sprintf("N%d.%d%q", v.Site, v.N, v.Text)
	case *CVal:
		if v == nil {
			return "C<nil>" // a typed nil pointer: not the same thing as an untyped nil or a missing key
		}
		return "C{" + strings.Join(v.Vals, ",") + "}"
	case VVal:
		return "V{" + strings.Join(v.Vals, ",") + "}"
	case SVal:
		return "W{" + strings.Join(v, ",") + "}"
	case MVal:
		if e, ok := v["e"]; ok {
			return "M{" + *e + "}"
		}
		return "M{}"
	case error:
		return "err(" + v.Error() + ")"
	case bool, int, uint64:
		return fmt.Sprint(v)
	}
	return fmt.Sprintf("<%T>", v)
}

// RenderState gives the canonical snapshot of a state store.
func RenderState(st map[string]any) string {
	if st == nil {
		return "-"
	}
	keys := make([]string, 0, len(st))
	for k := range st {
		keys = append(keys, k)
	}
	sort.Strings(keys)
	var b strings.Builder
	b.WriteByte('{')
	for i, k := range keys {
		if i > 0 {
			b.WriteByte(' ')
		}
		b.WriteString(k)
		b.WriteByte('=')
		b.WriteString(Render(st[k]))
	}
	b.WriteByte('}')
	return b.String()
}

func ctxOf(gs map[string]any) *Ctx {
	c, _ := gs["sim"].(*Ctx)
	if c == nil {
		// a call made without the GlobalStore option: the glue left the context
		// with the running client
		c, _ = simrt.Local().(*Ctx)
	}
	return c
}

// event records the invocation and returns (ctx, n, fault).
func event(gs map[string]any, kind byte, site, line, col, off int, text []byte, st map[string]any, labels []any) (*Ctx, int, *Fault) {
	simrt.Yield(simrt.YKernel)
	c := ctxOf(gs)
	if c == nil {
		panic("kernel: no simulation context in globalStore")
	}
	for len(c.counts) <= site {
		c.counts = append(c.counts, 0)
	}
	c.counts[site]++
	n := c.counts[site]
	c.gsSeen = gs
	// errors that are completed after they were returned: the next block does it
	for _, l := range c.late {
		l.done = true
	}
	c.late = nil
	g, ok := gs["cnt"].(int)
	if len(c.Events) > 0 && (!ok || g != len(c.Events)) {
		c.Backward = true
	}
	gs["cnt"] = len(c.Events) + 1
	var fault *Fault
	for i := range c.Plan.Faults {
		f := &c.Plan.Faults[i]
		if f.Site == site && f.N == n {
			fault = f
		}
	}
	if fault == nil && c.Plan.ErrPct > 0 && int(H(c.Plan.Seed, site, n, 5)%100) < c.Plan.ErrPct {
		fault = &Fault{Site: site, N: n, Kind: "err"}
	}
	max := c.Plan.MaxEvents
	if max == 0 {
		max = 2000
	}
	if len(c.Events) >= max {
		c.Overflow = true
		// keep counting in globalStore but stop recording; stop the run
		panic(simrt.Abort{})
	}
	ev := Event{Seq: len(c.Events), Site: site, Kind: kind, N: n, Line: line, Col: col, Off: off, Text: string(text), State: RenderState(st), GCnt: g}
	if len(labels) > 0 {
		ev.Labels = Render(labels)
	}
	if c.Tick != nil {
		ev.Tick = *c.Tick
	}
	if fault != nil {
		ev.Fault = " fault=" + fault.Kind
	}
	c.Events = append(c.Events, ev)
	return c, n, fault
}

func (c *Ctx) inject(site, n int, f *Fault) error {
	switch f.Kind {
	case "err":
		e := errors.New(fmt.Sprintf("E%d.%d", site, n))
		c.Injected = append(c.Injected, Injected{Seq: len(c.Events) - 1, Site: site, N: n, Kind: f.Kind, Err: e, Msg: e.Error()})
		return e
	case "errlate":
		// an error value that its author completes after returning it (an
		// enclosing action fills in an index): the list element wraps the value,
		// so it says what the value says when it is read
		e := &LateErr{base: fmt.Sprintf("L%d.%d", site, n)}
		c.late = append(c.late, e)
		c.Injected = append(c.Injected, Injected{Seq: len(c.Events) - 1, Site: site, N: n, Kind: f.Kind, Err: e, Msg: e.base})
		return e
	case "errjoin":
		// several things went wrong in one block: one error value made of two
		// (errors.Join); the list element wraps that value as it is
		e := errors.Join(errors.New(fmt.Sprintf("J%d.%d", site, n)), errors.New(fmt.Sprintf("K%d.%d", site, n)))
		c.Injected = append(c.Injected, Injected{Seq: len(c.Events) - 1, Site: site, N: n, Kind: f.Kind, Err: e, Msg: e.Error()})
		return e
	case "errdup":
		e := errors.New("DUP")
		c.Injected = append(c.Injected, Injected{Seq: len(c.Events) - 1, Site: site, N: n, Kind: f.Kind, Err: e, Msg: "DUP"})
		return e
	case "errnested":
		// what an include directive does: parse something else with the same
		// package and hand its error (an error list of that parse) back unchanged
		var e error
		if c.NestedErr != nil && c.NestedRuns < 16 {
			c.NestedRuns++
			e = c.NestedErr()
		}
		if e == nil {
			e = errors.New(fmt.Sprintf("EN%d.%d", site, n))
		}
		c.Injected = append(c.Injected, Injected{Seq: len(c.Events) - 1, Site: site, N: n, Kind: f.Kind, Err: e, Msg: e.Error()})
		return e
	}
	c.Panicked = f
	switch f.Kind {
	case "panic-err":
		e := errors.New(fmt.Sprintf("PE%d.%d", site, n))
		c.Injected = append(c.Injected, Injected{Seq: len(c.Events) - 1, Site: site, N: n, Kind: f.Kind, Err: e, Msg: e.Error()})
		panic(e)
	case "panic-str":
		msg := fmt.Sprintf("PS%d.%d", site, n)
		c.Injected = append(c.Injected, Injected{Seq: len(c.Events) - 1, Site: site, N: n, Kind: f.Kind, Msg: msg})
		panic(msg)
	case "panic-int":
		c.Injected = append(c.Injected, Injected{Seq: len(c.Events) - 1, Site: site, N: n, Kind: f.Kind, Msg: strconv.Itoa(1000*site + n)})
		panic(1000*site + n)
	case "panic-runtime":
		// a fault of the Go runtime inside the block (index out of range): the
		// commonest panic of real code blocks, a runtime.Error
		var xs []int
		idx := 1000*site + n
		c.Injected = append(c.Injected, Injected{Seq: len(c.Events) - 1, Site: site, N: n, Kind: f.Kind, Msg: fmt.Sprintf("runtime error: index out of range [%d] with length 0", idx)})
		_ = xs[idx]
		panic("unreachable")
	case "panic-stringer":
		v := GoodStringer{fmt.Sprintf("PG%d.%d", site, n)}
		c.Injected = append(c.Injected, Injected{Seq: len(c.Events) - 1, Site: site, N: n, Kind: f.Kind, Msg: fmt.Sprintf("%v", v)})
		panic(v)
	case "panic-badstringer":
		v := &BadStringer{}
		c.Injected = append(c.Injected, Injected{Seq: len(c.Events) - 1, Site: site, N: n, Kind: f.Kind, Msg: fmt.Sprintf("%v", v)})
		panic(v)
	default:
		v := PanicStruct{site, n}
		c.Injected = append(c.Injected, Injected{Seq: len(c.Events) - 1, Site: site, N: n, Kind: f.Kind, Msg: fmt.Sprintf("%v", v)})
		panic(v)
	}
}

// StateOp is one operation of a state block.
type StateOp struct {
	Op  string // set, del, cset (set to a fresh Cloner), cmut (mutate a Cloner in place; set if absent)
	Key string
	Val string
}

// StateOps returns the operations the state block (site, n) performs.
func (p *Plan) StateOps(site, n int) []StateOp {
	keys := p.StateKeys
	if keys < 1 {
		keys = 1
	}
	h := H(p.Seed, site, n, 1)
	nops := 1 + int(h%2)
	var ops []StateOp
	for i := 0; i < nops; i++ {
		h = mix(h)
		key := "k" + strconv.Itoa(int(h>>8)%keys)
		val := fmt.Sprintf("v%d.%d.%d", site, n, i)
		isC := int(h>>24)%100 < p.ClonerPct
		switch sel := int(h>>40) % 10; {
		case sel < 2:
			ops = append(ops, StateOp{"del", key, ""})
		case isC && sel == 2 && int(h>>52)%2 == 0:
			ops = append(ops, StateOp{"nil", key, ""}) // a key holding nil is a key
		case isC && sel == 2:
			ops = append(ops, StateOp{"cnil", "c" + key[1:], ""}) // ... and so is one holding a nil pointer of a Cloner type
		case isC && sel == 3 && i == 0:
			ops = append(ops, StateOp{"vmut", "w" + key[1:], val})
		case isC && sel == 3:
			ops = append(ops, StateOp{"mmut", "m" + key[1:], val})
		case isC && sel < 6:
			ops = append(ops, StateOp{"cmut", "c" + key[1:], val})
		case isC && sel == 6 && i == 0:
			ops = append(ops, StateOp{"sset", "s" + key[1:], val})
		case isC && sel == 7:
			ops = append(ops, StateOp{"smut", "s" + key[1:], val})
		case isC:
			ops = append(ops, StateOp{"cset", "c" + key[1:], val})
		default:
			ops = append(ops, StateOp{"set", key, val})
		}
	}
	return ops
}

// ApplyReal performs the operations on the real store.
func ApplyReal(st map[string]any, ops []StateOp) {
	for _, op := range ops {
		switch op.Op {
		case "set":
			st[op.Key] = op.Val
		case "del":
			delete(st, op.Key)
		case "cset":
			st[op.Key] = &CVal{Vals: []string{op.Val}}
		case "cmut":
			if c, ok := st[op.Key].(*CVal); ok && c != nil {
				c.Vals = append(c.Vals, op.Val) // in place, on purpose
			} else {
				st[op.Key] = &CVal{Vals: []string{op.Val}}
			}
		case "nil":
			st[op.Key] = nil
		case "cnil":
			st[op.Key] = (*CVal)(nil)
		case "mmut":
			if m, ok := st[op.Key].(MVal); ok && m["e"] != nil {
				*m["e"] += "+" + op.Val // through the shared element, on purpose
			} else {
				v := op.Val
				st[op.Key] = MVal{"e": &v}
			}
		case "sset":
			all := SVal{op.Val, op.Val + "b", op.Val + "c"}
			st[op.Key] = all
			st["t"+op.Key[1:]] = all[:1] // a window on the first element
		case "smut":
			if v, ok := st[op.Key].(SVal); ok {
				st[op.Key] = append(v, op.Val)
			} else {
				st[op.Key] = SVal{op.Val}
			}
		case "vmut":
			if v, ok := st[op.Key].(VVal); ok && len(v.Vals) > 0 {
				v.Vals[0] += "+" + op.Val // through the shared backing array, on purpose
			} else {
				st[op.Key] = VVal{Vals: []string{op.Val}}
			}
		}
	}
}

// PredTruth is the truth value the predicate block (site, n) returns.
func (p *Plan) PredTruth(site, n int) bool {
	return int(H(p.Seed, site, n, 2)%100) < p.PredTruePct
}

// NilValue says whether the action block (site, n) returns a nil value
// (`return nil, nil` is an ordinary thing for an action to do; a matched
// expression whose value is nil is still matched).
func (p *Plan) NilValue(site, n int) bool {
	return p.NilValPct > 0 && int(H(p.Seed, site, n, 7)%100) < p.NilValPct
}

// Nests says whether the action block (site, n) makes a re-entrant Parse call.
func (p *Plan) Nests(site, n int) bool {
	return p.NestedPct > 0 && int(H(p.Seed, site, n, 4)%100) < p.NestedPct
}

// Misbehaves says whether the action/predicate block (site, n) writes to the
// state store although only state blocks may.
func (p *Plan) Misbehaves(site, n int) bool {
	return p.MisbehavePct > 0 && int(H(p.Seed, site, n, 3)%100) < p.MisbehavePct
}

func misbehave(st map[string]any, site, n int) {
	if st == nil {
		return
	}
	st[fmt.Sprintf("bad%d", site%3)] = fmt.Sprintf("bad%d.%d", site, n)
	// mutate every Cloner in place and delete one ordinary key
	keys := make([]string, 0, len(st))
	for k := range st {
		keys = append(keys, k)
	}
	sort.Strings(keys)
	for _, k := range keys {
		if c, ok := st[k].(*CVal); ok && c != nil {
			c.Vals = append(c.Vals, "BAD")
		}
		if v, ok := st[k].(VVal); ok && len(v.Vals) > 0 {
			v.Vals[0] += "+BAD"
		}
		if m, ok := st[k].(MVal); ok && m["e"] != nil {
			*m["e"] += "+BAD"
		}
		if w, ok := st[k].(SVal); ok && len(w) > 0 {
			w[0] += "+BAD"
		}
	}
	for _, k := range keys {
		if strings.HasPrefix(k, "k") {
			delete(st, k)
			break
		}
	}
}

// Act is the body of every action block.
func Act(gs map[string]any, site, line, col, off int, text []byte, st map[string]any, labels ...any) (any, error) {
	c, n, f := event(gs, KAct, site, line, col, off, text, st, labels)
	if c.Nested != nil && c.NestedRuns < 16 && c.Plan.Nests(site, n) {
		c.NestedRuns++
		c.Nested()
	}
	if c.Plan.Misbehaves(site, n) {
		misbehave(st, site, n)
	}
	if c.Plan.ScribblePct > 0 && int(H(c.Plan.Seed, site, n, 9)%100) < c.Plan.ScribblePct {
		for _, l := range labels {
			if b, ok := l.([]byte); ok {
				for i, ch := range b {
					if ch >= 'a' && ch <= 'z' {
						b[i] = ch - 'a' + 'A'
					}
				}
			}
		}
	}
	var v any = &Node{Site: site, N: n, Text: string(text)}
	if c.Plan.NilValue(site, n) {
		v = nil
	}
	if f != nil {
		return v, c.inject(site, n, f)
	}
	return v, nil
}

// Pred is the body of every code predicate block (& and !).
func Pred(gs map[string]any, site, line, col, off int, text []byte, st map[string]any, labels ...any) (bool, error) {
	c, n, f := event(gs, KPred, site, line, col, off, text, st, labels)
	if c.Plan.Misbehaves(site, n) {
		misbehave(st, site, n)
	}
	t := c.Plan.PredTruth(site, n)
	if f != nil {
		return t, c.inject(site, n, f)
	}
	return t, nil
}

// State is the body of every state block.
func State(gs map[string]any, site, line, col, off int, text []byte, st map[string]any, labels ...any) error {
	c, n, f := event(gs, KState, site, line, col, off, text, st, labels)
	if st != nil {
		ApplyReal(st, c.Plan.StateOps(site, n))
	}
	if f != nil {
		return c.inject(site, n, f)
	}
	return nil
}

// CopyStore returns a new map with the entries of st (the values themselves
// are shared): a state block that installs it (`c.state = k.CopyStore(c.state)`)
// replaces the store wholesale without changing what it contains.
func CopyStore(st map[string]any) map[string]any {
	if st == nil {
		return nil
	}
	out := make(map[string]any, len(st))
	for k, v := range st {
		out[k] = v
	}
	return out
}

// InitVal decodes an initial state value given to the InitState option:
// "C:a,b" is a Cloner value, anything else a string.
func InitVal(s string) any {
	if s == "CNIL" {
		return (*CVal)(nil)
	}
	if strings.HasPrefix(s, "C:") {
		return &CVal{Vals: strings.Split(s[2:], ",")}
	}
	if strings.HasPrefix(s, "V:") {
		return VVal{Vals: strings.Split(s[2:], ",")}
	}
	if strings.HasPrefix(s, "M:") {
		v := s[2:]
		return MVal{"e": &v}
	}
	return s
}

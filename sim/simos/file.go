package simos

import (
	"io"
	"io/fs"
	"syscall"
)

// Read mirrors (*os.File).Read.
func (f *File) Read(p []byte) (int, error) {
	if f.closed {
		return 0, &fs.PathError{Op: "read", Path: f.name, Err: fs.ErrClosed}
	}
	if f.isDir {
		return 0, &fs.PathError{Op: "read", Path: f.name, Err: syscall.EISDIR}
	}
	if len(p) == 0 {
		return 0, nil
	}
	if !w.Exited && (f.alias != nil || f == Stdout || f == Stderr) {
		// the standard output is a pipe or a terminal: reading from it waits for
		// bytes that nobody will send
		w.Blocked = "read from " + f.name
		panic(BlockedForever{w.Blocked})
	}
	faulty := f.role == roleIn && !w.Exited
	if faulty && w.F.InReadErrAt >= 0 && f.rpos >= w.F.InReadErrAt {
		w.Fired.InReadErr = true
		return 0, &fs.PathError{Op: "read", Path: f.name, Err: syscall.EIO}
	}
	if f.rpos >= len(f.data) {
		return 0, io.EOF
	}
	n := len(f.data) - f.rpos
	if n > len(p) {
		n = len(p)
	}
	if faulty && w.F.InReadErrAt >= 0 && f.rpos+n > w.F.InReadErrAt {
		n = w.F.InReadErrAt - f.rpos // deliver the bytes before the error first
	}
	if faulty && f.rng != 0 && n > 1 {
		r := next(&f.rng)
		var m int
		switch r % 4 {
		case 0:
			m = 1
		case 1:
			m = 1 + int((r>>8)%7)
		case 2:
			m = 1 + int((r>>8)%uint64(n))
		default:
			m = n
		}
		if m < n {
			n = m
			w.Fired.ShortReads++
		}
	}
	copy(p, f.data[f.rpos:f.rpos+n])
	f.rpos += n
	return n, nil
}

// Write mirrors (*os.File).Write. A faulted write accepts the bytes before
// the fault offset and returns the partial count with the error, as write(2)
// followed by the os package's retry loop does.
func (f *File) Write(p []byte) (int, error) {
	if w.Exited {
		return len(p), nil // the process is gone; nothing is observable any more
	}
	if f.closed {
		return 0, &fs.PathError{Op: "write", Path: f.name, Err: fs.ErrClosed}
	}
	if f.alias != nil {
		return f.alias.Write(p)
	}
	limit := -1
	var e syscall.Errno
	switch f.role {
	case roleOut:
		limit, e = w.F.OutWriteErrAt, errno(w.F.OutWriteErr, syscall.ENOSPC)
	case roleErr:
		limit, e = w.F.ErrWriteErrAt, syscall.EIO
	case roleIn:
		return 0, &fs.PathError{Op: "write", Path: f.name, Err: syscall.EBADF}
	}
	n := len(p)
	var err error
	if limit >= 0 && f.written+n > limit {
		n = limit - f.written
		if n < 0 {
			n = 0
		}
		err = &fs.PathError{Op: "write", Path: f.name, Err: e}
		if f.role == roleOut {
			w.Fired.OutWriteErr = true
		} else {
			w.Fired.ErrWriteErr = true
		}
	}
	// write at the file offset: an existing longer content keeps its tail
	for len(f.data) < f.wpos {
		f.data = append(f.data, 0)
	}
	over := copy(f.data[f.wpos:], p[:n])
	f.data = append(f.data, p[over:n]...)
	f.wpos += n
	f.written += n
	if f.role == roleOut && f != Stdout {
		w.Files[f.name] = f.data
		touch(f.name)
	}
	return n, err
}

// WriteString mirrors (*os.File).WriteString.
func (f *File) WriteString(s string) (int, error) { return f.Write([]byte(s)) }

// Close mirrors (*os.File).Close.
func (f *File) Close() error {
	if w.Exited {
		return nil
	}
	if f.closed {
		return &fs.PathError{Op: "close", Path: f.name, Err: fs.ErrClosed}
	}
	f.closed = true
	switch f.role {
	case roleIn:
		if w.F.InCloseErr {
			w.Fired.InCloseErr = true
			return &fs.PathError{Op: "close", Path: f.name, Err: syscall.EIO}
		}
	case roleOut:
		if w.F.OutCloseErr {
			w.Fired.OutCloseErr = true
			return &fs.PathError{Op: "close", Path: f.name, Err: syscall.EIO}
		}
	}
	return nil
}

// Seek mirrors (*os.File).Seek: regular files have one offset for reading and
// writing; streams cannot seek.
func (f *File) Seek(offset int64, whence int) (int64, error) {
	if f.closed {
		return 0, &fs.PathError{Op: "seek", Path: f.name, Err: fs.ErrClosed}
	}
	if f.alias != nil || f == Stdin || f == Stdout || f == Stderr || f.isDir {
		return 0, &fs.PathError{Op: "seek", Path: f.name, Err: syscall.ESPIPE}
	}
	cur := int64(f.wpos)
	if f.role == roleIn {
		cur = int64(f.rpos)
	}
	var abs int64
	switch whence {
	case io.SeekStart:
		abs = offset
	case io.SeekCurrent:
		abs = cur + offset
	case io.SeekEnd:
		abs = int64(len(f.data)) + offset
	default:
		return 0, &fs.PathError{Op: "seek", Path: f.name, Err: syscall.EINVAL}
	}
	if abs < 0 {
		return 0, &fs.PathError{Op: "seek", Path: f.name, Err: syscall.EINVAL}
	}
	f.rpos, f.wpos = int(abs), int(abs)
	return abs, nil
}

// Sync mirrors (*os.File).Sync.
func (f *File) Sync() error { return nil }

// Fd mirrors (*os.File).Fd loosely; only used for identity.
func (f *File) Fd() uintptr {
	switch f {
	case Stdin:
		return 0
	case Stdout:
		return 1
	case Stderr:
		return 2
	}
	return 3
}

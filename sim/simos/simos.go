// Package simos is the process-I/O seam of the tool world: an in-memory file
// system, the three standard streams, the argument vector and the exit call,
// with a fault plan owned by the simulator. The rewriter turns os.X into
// simos.X for every X defined here.
package simos

import (
	"errors"
	"fmt"
	"io"
	"io/fs"
	"log"
	"path/filepath"
	"sort"
	"strconv"
	"strings"
	"syscall"
	"time"
)

// Faults is the fault plan of one simulated run of the tool. Offsets are byte
// counts; -1 (or an empty string) disables a fault.
type Faults struct {
	InChunkSeed   uint64 `json:"in_chunk_seed,omitempty"`  // != 0: grammar reads return short counts drawn from this seed
	InReadErrAt   int    `json:"in_read_err_at"`           // grammar read fails once this many bytes were delivered
	InCloseErr    bool   `json:"in_close_err,omitempty"`   // closing the grammar source fails
	InOpenErr     string `json:"in_open_err,omitempty"`    // opening the grammar file fails: ENOENT, EACCES, EISDIR
	OutCreateErr  string `json:"out_create_err,omitempty"` // creating the -o file fails: EACCES, ENOSPC, EISDIR
	OutWriteErrAt int    `json:"out_write_err_at"`         // output write fails once this many bytes were accepted
	OutWriteErr   string `json:"out_write_err,omitempty"`  // ENOSPC (default), EIO, EPIPE
	OutCloseErr   bool   `json:"out_close_err,omitempty"`  // closing the output fails
	ErrWriteErrAt int    `json:"err_write_err_at"`         // stderr write fails once this many bytes were accepted
	// EnvSeed is not a fault: it decides what the process is told about its
	// surroundings (number of CPUs, environment variables, host name, process
	// id, home directory). 0: a fixed default machine.
	EnvSeed uint64 `json:"env_seed,omitempty"`
}

// NoFaults is the empty plan.
func NoFaults() Faults {
	return Faults{InReadErrAt: -1, OutWriteErrAt: -1, ErrWriteErrAt: -1}
}

// Fired records which faults actually happened.
type Fired struct {
	ShortReads   int  `json:"short_reads,omitempty"`
	InReadErr    bool `json:"in_read_err,omitempty"`
	InCloseErr   bool `json:"in_close_err,omitempty"`
	InOpenErr    bool `json:"in_open_err,omitempty"`
	OutCreateErr bool `json:"out_create_err,omitempty"`
	OutWriteErr  bool `json:"out_write_err,omitempty"`
	OutCloseErr  bool `json:"out_close_err,omitempty"`
	ErrWriteErr  bool `json:"err_write_err,omitempty"`
}

// ExitSentinel is the panic value used to unwind out of the simulated main.
type ExitSentinel struct{ Code int }

// File is the simulated *os.File.
type File struct {
	name    string
	role    int // roleIn, roleOut, roleErr, roleOther
	data    []byte
	rpos    int
	wpos    int // write offset (regular files; streams only append)
	written int
	closed  bool
	rng     uint64
	isDir   bool
	alias   *File // /dev/stdout and friends: another name of a standard stream
}

// BlockedForever is what a run ends with (by panic, like ExitSentinel) when it
// reads from something nobody will ever write to or close: its own standard
// output, a pipe whose only writer it is itself.
type BlockedForever struct{ What string }

const (
	roleOther = iota
	roleIn
	roleOut
	roleErr
)

// World is the complete simulated process environment.
type World struct {
	// Mtime is the logical modification time of every file (seconds): the
	// grammar is the oldest, files lying around from earlier runs are newer, and
	// whatever this run writes is newer still.
	Mtime    map[string]int64
	mtick    int64
	Files    map[string][]byte
	Dirs     map[string]bool
	StdinBuf []byte
	F        Faults
	Fired    Fired
	EnvReads int // how often the process asked about its surroundings
	Exited   bool
	ExitCode int
	OutFile  string // name of the file opened through Create, if any
	InFile   string
	Blocked  string // set when the run blocked forever (see BlockedForever)
}

var (
	w *World
	// Stdin, Stdout, Stderr and Args mirror package os.
	Stdin  *File
	Stdout *File
	Stderr *File
	Args   []string
)

// DevNull mirrors os.DevNull.
const DevNull = "/dev/null"

// Reset installs a fresh world. Called by the driver before every simulated run.
func Reset(args []string, stdin []byte, files map[string][]byte, dirs []string, f Faults) *World {
	nw := &World{Files: map[string][]byte{}, Dirs: map[string]bool{}, StdinBuf: stdin, F: f, Mtime: map[string]int64{}, mtick: 3000}
	for k, v := range files {
		nw.Files[k] = append([]byte(nil), v...)
		nw.Mtime[k] = 2000 // left behind by an earlier run ...
		if strings.HasSuffix(k, ".peg") {
			nw.Mtime[k] = 1000 // ... of a grammar that has not changed since
		}
	}
	for _, d := range dirs {
		nw.Dirs[d] = true
	}
	w = nw
	Args = append([]string(nil), args...)
	Stdin = &File{name: "/dev/stdin", role: roleIn, data: stdin, rng: f.InChunkSeed}
	Stdout = &File{name: "/dev/stdout", role: roleOut}
	Stderr = &File{name: "/dev/stderr", role: roleErr}
	return nw
}

// Current returns the installed world.
func Current() *World { return w }

// StdoutBytes etc. give the driver what was written.
func (x *World) StdoutBytes() []byte { return Stdout.data }
func (x *World) StderrBytes() []byte { return Stderr.data }

// FileNames lists the files of the world in sorted order.
func (x *World) FileNames() []string {
	var n []string
	for k := range x.Files {
		n = append(n, k)
	}
	sort.Strings(n)
	return n
}

// Exit mirrors os.Exit: it records the first status and unwinds.
func Exit(code int) {
	if !w.Exited {
		w.Exited = true
		w.ExitCode = code
	}
	panic(ExitSentinel{Code: w.ExitCode})
}

func errno(name string, def syscall.Errno) syscall.Errno {
	switch name {
	case "ENOENT":
		return syscall.ENOENT
	case "EACCES":
		return syscall.EACCES
	case "EISDIR":
		return syscall.EISDIR
	case "ENOSPC":
		return syscall.ENOSPC
	case "EIO":
		return syscall.EIO
	case "EPIPE":
		return syscall.EPIPE
	case "EROFS":
		return syscall.EROFS
	}
	return def
}

// Open mirrors os.Open.
func Open(name string) (*File, error) {
	if w.Exited {
		return nil, &fs.PathError{Op: "open", Path: name, Err: syscall.ENOENT}
	}
	if w.F.InOpenErr != "" {
		w.Fired.InOpenErr = true
		return nil, &fs.PathError{Op: "open", Path: name, Err: errno(w.F.InOpenErr, syscall.EACCES)}
	}
	if w.Dirs[name] {
		// opening a directory succeeds; reading it fails with EISDIR
		w.InFile = name
		return &File{name: name, role: roleIn, isDir: true}, nil
	}
	data, ok := w.Files[name]
	if !ok {
		return nil, &fs.PathError{Op: "open", Path: name, Err: syscall.ENOENT}
	}
	w.InFile = name
	return &File{name: name, role: roleIn, data: data, rng: w.F.InChunkSeed}, nil
}

// Create mirrors os.Create.
func Create(name string) (*File, error) {
	if w.Exited {
		return nil, &fs.PathError{Op: "open", Path: name, Err: syscall.EACCES}
	}
	if w.F.OutCreateErr != "" {
		w.Fired.OutCreateErr = true
		return nil, &fs.PathError{Op: "open", Path: name, Err: errno(w.F.OutCreateErr, syscall.EACCES)}
	}
	if w.Dirs[name] {
		return nil, &fs.PathError{Op: "open", Path: name, Err: syscall.EISDIR}
	}
	if name == "" {
		return nil, &fs.PathError{Op: "open", Path: name, Err: syscall.ENOENT}
	}
	if f := streamAlias(name); f != nil {
		return f, nil
	}
	w.Files[name] = []byte{}
	touch(name)
	w.OutFile = name
	return &File{name: name, role: roleOut}, nil
}

// OpenFile mirrors os.OpenFile for the flag combinations a tool like pigeon
// can use: read-only opens behave like Open, anything that can write behaves
// like a creation of the output file and honours O_CREATE, O_EXCL, O_TRUNC and
// O_APPEND against the content the file already has.
func OpenFile(name string, flag int, perm fs.FileMode) (*File, error) {
	const accMode = syscall.O_RDONLY | syscall.O_WRONLY | syscall.O_RDWR
	if flag&accMode == syscall.O_RDONLY && flag&syscall.O_CREAT == 0 {
		return Open(name)
	}
	if w.Exited {
		return nil, &fs.PathError{Op: "open", Path: name, Err: syscall.EACCES}
	}
	if w.F.OutCreateErr != "" {
		w.Fired.OutCreateErr = true
		return nil, &fs.PathError{Op: "open", Path: name, Err: errno(w.F.OutCreateErr, syscall.EACCES)}
	}
	if w.Dirs[name] {
		return nil, &fs.PathError{Op: "open", Path: name, Err: syscall.EISDIR}
	}
	if f := streamAlias(name); f != nil {
		return f, nil
	}
	old, exists := w.Files[name]
	switch {
	case !exists && flag&syscall.O_CREAT == 0, name == "":
		return nil, &fs.PathError{Op: "open", Path: name, Err: syscall.ENOENT}
	case exists && flag&syscall.O_CREAT != 0 && flag&syscall.O_EXCL != 0:
		return nil, &fs.PathError{Op: "open", Path: name, Err: syscall.EEXIST}
	}
	f := &File{name: name, role: roleOut}
	if exists && flag&syscall.O_TRUNC == 0 {
		f.data = append([]byte(nil), old...)
		if flag&syscall.O_APPEND != 0 {
			f.wpos = len(f.data)
		}
	}
	w.Files[name] = f.data
	if f.data == nil {
		w.Files[name] = []byte{}
	}
	if !exists || flag&syscall.O_TRUNC != 0 {
		touch(name)
	}
	w.OutFile = name
	return f, nil
}

// streamAlias returns a handle on a standard stream for the names the system
// gives them in the file system (`-o /dev/stdout`).
func streamAlias(name string) *File {
	switch name {
	case "/dev/stdout", "/dev/fd/1", "/proc/self/fd/1":
		return &File{name: name, role: roleOut, alias: Stdout}
	case "/dev/stderr", "/dev/fd/2", "/proc/self/fd/2":
		return &File{name: name, role: roleErr, alias: Stderr}
	}
	return nil
}

// ReadFile mirrors os.ReadFile.
func ReadFile(name string) ([]byte, error) {
	f, err := Open(name)
	if err != nil {
		return nil, err
	}
	var out []byte
	buf := make([]byte, 512)
	for {
		n, err := f.Read(buf)
		out = append(out, buf[:n]...)
		if err != nil {
			if errors.Is(err, io.EOF) {
				return out, nil
			}
			return out, err
		}
	}
}

// WriteFile mirrors os.WriteFile.
func WriteFile(name string, data []byte, _ fs.FileMode) error {
	f, err := Create(name)
	if err != nil {
		return err
	}
	if _, err := f.Write(data); err != nil {
		return err
	}
	return f.Close()
}

// Name mirrors (*os.File).Name.
func (f *File) Name() string { return f.name }

func next(s *uint64) uint64 {
	*s += 0x9e3779b97f4a7c15
	z := *s
	z = (z ^ (z >> 30)) * 0xbf58476d1ce4e5b9
	z = (z ^ (z >> 27)) * 0x94d049bb133111eb
	return z ^ (z >> 31)
}

// ---------------------------------------------------------------------------
// The rest of the file-system surface a tool like pigeon may reasonably grow
// into (writing through a temporary file and renaming it, checking for an
// existing output, creating the output directory).

type fileInfo struct {
	name  string
	size  int64
	dir   bool
	mtime int64
	pipe  bool
}

// touch records that a file was written now.
func touch(name string) {
	if w.Mtime == nil {
		w.Mtime = map[string]int64{}
	}
	w.mtick++
	w.Mtime[name] = w.mtick
}

func (i fileInfo) Name() string { return i.name }
func (i fileInfo) Size() int64  { return i.size }
func (i fileInfo) Mode() fs.FileMode {
	if i.dir {
		return fs.ModeDir | 0o755
	}
	if i.pipe {
		return fs.ModeNamedPipe | 0o600
	}
	return 0o644
}
func (i fileInfo) ModTime() time.Time { return time.Unix(i.mtime, 0) }
func (i fileInfo) IsDir() bool        { return i.dir }
func (i fileInfo) Sys() any           { return nil }

// Stat mirrors os.Stat.
func Stat(name string) (fs.FileInfo, error) {
	if w.Dirs[name] {
		return fileInfo{name: name, dir: true}, nil
	}
	if b, ok := w.Files[name]; ok {
		return fileInfo{name: name, size: int64(len(b)), mtime: w.Mtime[name]}, nil
	}
	return nil, &fs.PathError{Op: "stat", Path: name, Err: syscall.ENOENT}
}

// Lstat mirrors os.Lstat.
func Lstat(name string) (fs.FileInfo, error) { return Stat(name) }

// Remove mirrors os.Remove.
func Remove(name string) error {
	if w.Exited {
		return nil
	}
	if _, ok := w.Files[name]; !ok {
		return &fs.PathError{Op: "remove", Path: name, Err: syscall.ENOENT}
	}
	delete(w.Files, name)
	if w.OutFile == name {
		w.OutFile = ""
	}
	return nil
}

// Rename mirrors os.Rename.
func Rename(oldpath, newpath string) error {
	if w.Exited {
		return nil
	}
	b, ok := w.Files[oldpath]
	if !ok {
		return &fs.PathError{Op: "rename", Path: oldpath, Err: syscall.ENOENT}
	}
	if w.Dirs[newpath] {
		return &fs.PathError{Op: "rename", Path: newpath, Err: syscall.EISDIR}
	}
	if w.F.OutCloseErr && w.OutFile == oldpath {
		// the last step that makes the output durable fails
		w.Fired.OutCloseErr = true
		return &fs.PathError{Op: "rename", Path: newpath, Err: syscall.EIO}
	}
	w.Files[newpath] = b
	delete(w.Files, oldpath)
	if w.OutFile == oldpath {
		w.OutFile = newpath
	}
	return nil
}

// MkdirAll mirrors os.MkdirAll.
func MkdirAll(path string, _ fs.FileMode) error {
	if _, ok := w.Files[path]; ok {
		return &fs.PathError{Op: "mkdir", Path: path, Err: syscall.ENOTDIR}
	}
	w.Dirs[path] = true
	return nil
}

// Mkdir mirrors os.Mkdir.
func Mkdir(path string, m fs.FileMode) error { return MkdirAll(path, m) }

var tempN int

// CreateTemp mirrors os.CreateTemp.
func CreateTemp(dir, pattern string) (*File, error) {
	if dir == "" {
		dir = "/tmp"
	}
	tempN++
	name := dir + "/" + strings.Replace(pattern, "*", strconv.Itoa(tempN), 1)
	if !strings.Contains(pattern, "*") {
		name += strconv.Itoa(tempN)
	}
	return Create(name)
}

// TempDir mirrors os.TempDir.
func TempDir() string { return "/tmp" }

// Getwd mirrors os.Getwd.
func Getwd() (string, error) {
	if w == nil || w.F.EnvSeed == 0 {
		return "/sim", nil
	}
	w.EnvReads++
	return "/work/" + []string{"sim", "calc", "server", "src/github.com/me/proj", "tmp.1234", "my grammar"}[envMix("cwd")%6], nil
}

// Abs mirrors filepath.Abs (which asks the real OS for the working directory).
func Abs(path string) (string, error) {
	if filepath.IsAbs(path) {
		return filepath.Clean(path), nil
	}
	wd, _ := Getwd()
	return filepath.Join(wd, path), nil
}

// Chmod mirrors os.Chmod.
func Chmod(name string, _ fs.FileMode) error {
	if _, err := Stat(name); err != nil {
		return err
	}
	return nil
}

// Stat mirrors (*os.File).Stat.
func (f *File) Stat() (fs.FileInfo, error) {
	if f == Stdin || f == Stdout || f == Stderr {
		// the standard streams are pipes (as they are when the real binary is
		// driven by another program): no size is known in advance
		return fileInfo{name: f.name, pipe: true}, nil
	}
	return fileInfo{name: f.name, size: int64(len(f.data)), dir: f.isDir, mtime: w.Mtime[f.name]}, nil
}

// Chmod mirrors (*os.File).Chmod.
func (f *File) Chmod(fs.FileMode) error { return nil }

// Truncate mirrors (*os.File).Truncate.
func (f *File) Truncate(size int64) error {
	if int(size) < len(f.data) {
		f.data = f.data[:size]
		if f.role == roleOut && f != Stdout {
			w.Files[f.name] = f.data
		}
	}
	return nil
}

// ---------------------------------------------------------------------------
// package log: Fatal* must not end the simulation's process, Print* must go to
// the simulated stderr (without a timestamp: the simulated clock does not run).

func logOut(str string) {
	if !strings.HasSuffix(str, "\n") {
		str += "\n"
	}
	Stderr.WriteString(str)
}

// LogFatal mirrors log.Fatal.
func LogFatal(v ...any) { logOut(fmt.Sprint(v...)); Exit(1) }

// LogFatalf mirrors log.Fatalf.
func LogFatalf(format string, v ...any) { logOut(fmt.Sprintf(format, v...)); Exit(1) }

// LogFatalln mirrors log.Fatalln.
func LogFatalln(v ...any) { logOut(fmt.Sprintln(v...)); Exit(1) }

// LogPrint mirrors log.Print.
func LogPrint(v ...any) { logOut(fmt.Sprint(v...)) }

// LogPrintf mirrors log.Printf.
func LogPrintf(format string, v ...any) { logOut(fmt.Sprintf(format, v...)) }

// LogPrintln mirrors log.Println.
func LogPrintln(v ...any) { logOut(fmt.Sprintln(v...)) }

// LoggerFatal mirrors (*log.Logger).Fatal without ending the process.
func LoggerFatal(l *log.Logger, v ...any) { l.Print(v...); Exit(1) }

// LoggerFatalf mirrors (*log.Logger).Fatalf.
func LoggerFatalf(l *log.Logger, format string, v ...any) { l.Printf(format, v...); Exit(1) }

// LoggerFatalln mirrors (*log.Logger).Fatalln.
func LoggerFatalln(l *log.Logger, v ...any) { l.Println(v...); Exit(1) }

// ---------------------------------------------------------------------------
// What a process can ask about its surroundings. The answers are a function
// of Faults.EnvSeed and nothing else: two runs of one input under different
// seeds are two machines / two sessions.

func envMix(k string) uint64 {
	z := w.F.EnvSeed
	for i := 0; i < len(k); i++ {
		z = (z ^ uint64(k[i])) * 0x100000001b3
	}
	z += 0x9e3779b97f4a7c15
	z = (z ^ (z >> 30)) * 0xbf58476d1ce4e5b9
	z = (z ^ (z >> 27)) * 0x94d049bb133111eb
	return z ^ (z >> 31)
}

// NumCPU mirrors runtime.NumCPU.
func NumCPU() int {
	if w == nil || w.F.EnvSeed == 0 {
		return 16
	}
	w.EnvReads++
	return []int{1, 2, 3, 4, 8, 16, 48, 64, 128}[envMix("cpu")%9]
}

// GOMAXPROCS mirrors runtime.GOMAXPROCS (the setting is accepted and ignored:
// the simulator decides who runs).
func GOMAXPROCS(n int) int { return NumCPU() }

// Getenv mirrors os.Getenv.
func Getenv(k string) string { v, _ := LookupEnv(k); return v }

// LookupEnv mirrors os.LookupEnv.
func LookupEnv(k string) (string, bool) {
	if w == nil || w.F.EnvSeed == 0 {
		return "", false
	}
	w.EnvReads++
	h := envMix("env:" + k)
	if h%2 == 1 && (strings.HasSuffix(k, "FLAGS") || strings.HasSuffix(k, "OPTS") || strings.HasSuffix(k, "OPTIONS") || strings.HasSuffix(k, "ARGS")) {
		// a variable that looks like default options for a tool: in some
		// environments somebody has set it to options of this tool
		opts := []string{"-x", "-nolint", "-cache", "-optimize-parser", "-optimize-grammar -nolint", "-support-left-recursion"}
		return opts[(h>>8)%uint64(len(opts))], true
	}
	switch h % 4 {
	case 0:
		return "", false
	case 1:
		return "", true
	case 2:
		return "1", true
	}
	return fmt.Sprintf("v%d", h%1000), true
}

// Environ mirrors os.Environ.
func Environ() []string {
	if w == nil || w.F.EnvSeed == 0 {
		return nil
	}
	w.EnvReads++
	return []string{fmt.Sprintf("HOME=/home/u%d", envMix("home")%100), fmt.Sprintf("TERM=t%d", envMix("term")%5)}
}

// Hostname mirrors os.Hostname.
func Hostname() (string, error) {
	if w != nil {
		w.EnvReads++
	}
	return fmt.Sprintf("host%d", envMix("host")%1000), nil
}

// Getpid mirrors os.Getpid.
func Getpid() int {
	if w != nil {
		w.EnvReads++
	}
	return 1000 + int(envMix("pid")%30000)
}

// Getppid mirrors os.Getppid.
func Getppid() int { return 1 + int(envMix("ppid")%900) }

// Getuid mirrors os.Getuid.
func Getuid() int { return int(envMix("uid") % 2000) }

// UserHomeDir mirrors os.UserHomeDir.
func UserHomeDir() (string, error) { return fmt.Sprintf("/home/u%d", envMix("home")%100), nil }

// UserCacheDir mirrors os.UserCacheDir.
func UserCacheDir() (string, error) { h, _ := UserHomeDir(); return h + "/.cache", nil }

// UserConfigDir mirrors os.UserConfigDir.
func UserConfigDir() (string, error) { h, _ := UserHomeDir(); return h + "/.config", nil }

// Executable mirrors os.Executable.
func Executable() (string, error) { return "/usr/local/bin/pigeon", nil }

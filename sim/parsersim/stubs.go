package parsersim

func campaignC18(p *Parser, req *Request, resp *Response) { resp.Error = "c18 not built yet" }

package parsersim

func modelPositions(p *Parser, c *Call, R0 *CallResult) PosOracle { return nil }

func campaignC05(p *Parser, req *Request, resp *Response) { resp.Error = "c05 not built yet" }

func campaignC18(p *Parser, req *Request, resp *Response) { resp.Error = "c18 not built yet" }

package parsersim

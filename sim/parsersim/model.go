package parsersim

import (
	"fmt"
	"sort"
	"strings"
	"unicode"
	"unicode/utf8"

	"verifsim/gen"
	"verifsim/kernel"
)

// The reference model: a small interpreter of the generator's grammar AST
// that implements what doc.go and the property statements say. It has a
// functional state store threaded through evaluation (failure and predicates
// return the incoming store by construction; writes of action and predicate
// blocks are dropped; state-block operations persist; Cloner values are
// values), the recovery-handler stack, and the same plan-driven kernel
// outcomes as the real run. It has no pool, no clone/restore, no savepoints.

type mval struct {
	s      string
	c      []string
	isC    bool // pointer-receiver Cloner
	isV    bool // value-receiver Cloner
	isM    bool // map-kind Cloner with one reference element (c[0])
	isW    bool // slice-kind Cloner
	isNil  bool
	isCNil bool // a nil pointer of the Cloner type
}

type mstore map[string]mval

func (st mstore) with(k string, v mval) mstore {
	n := make(mstore, len(st)+1)
	for kk, vv := range st {
		n[kk] = vv
	}
	n[k] = v
	return n
}

func (st mstore) without(k string) mstore {
	if _, ok := st[k]; !ok {
		return st
	}
	n := make(mstore, len(st))
	for kk, vv := range st {
		if kk != k {
			n[kk] = vv
		}
	}
	return n
}

func (st mstore) render() string {
	keys := make([]string, 0, len(st))
	for k := range st {
		keys = append(keys, k)
	}
	sort.Strings(keys)
	var b strings.Builder
	b.WriteByte('{')
	for i, k := range keys {
		if i > 0 {
			b.WriteByte(' ')
		}
		b.WriteString(k)
		b.WriteByte('=')
		v := st[k]
		if v.isC {
			b.WriteString("C{" + strings.Join(v.c, ",") + "}")
		} else if v.isV {
			b.WriteString("V{" + strings.Join(v.c, ",") + "}")
		} else if v.isM {
			b.WriteString("M{" + strings.Join(v.c, ",") + "}")
		} else if v.isW {
			b.WriteString("W{" + strings.Join(v.c, ",") + "}")
		} else if v.isCNil {
			b.WriteString("C<nil>")
		} else if v.isNil {
			b.WriteString("nil")
		} else {
			b.WriteString(kernel.Render(v.s))
		}
	}
	b.WriteByte('}')
	return b.String()
}

// MEvent is an event predicted by the model.
type MEvent struct {
	Site  int
	Kind  byte
	N     int
	Off   int    // actions: match start; predicates/state blocks: current offset
	Text  string // actions only
	State string
}

// Key mirrors kernel.Event.Key.
func (e *MEvent) Key() string {
	if e.Kind == kernel.KAct {
		return fmt.Sprintf("A%d#%d@%d%q", e.Site, e.N, e.Off, e.Text)
	}
	return fmt.Sprintf("%c%d#%d", e.Kind, e.Site, e.N)
}

type mhandler struct {
	labels []string
	expr   *gen.Expr
}

type modelAbort struct{ why string }

// Model is one model execution.
type Model struct {
	g         *gen.Grammar
	in        []byte
	plan      *kernel.Plan
	Events    []MEvent
	counts    []int
	handlers  []mhandler
	steps     int
	Panicked  bool
	Aborted   string
	OK        bool
	End       int
	Final     mstore
	withState bool
	// left recursion (direct): memo of the leader's seed per (rule, offset)
	lrSeed map[string]*lrEntry
	// ErrAt lists, in order, the events at which an error was injected and kept.
	errLog []int
	// packrat memo (Memoize(true)): every (expression or rule, offset) is
	// evaluated at most once; a hit yields the recorded (ok, end) and produces no
	// events; the store is the caller's (a remembered result carries no store).
	memoOn bool
	memo   map[string][2]int
}

type lrEntry struct {
	ok  bool
	end int
	st  mstore
}

// RunModel executes the model for a call. withState says whether the parser
// variant has a state store at all.
func RunModel(g *gen.Grammar, c *Call, withState bool) *Model {
	m := &Model{g: g, in: c.Input, plan: &c.Plan, withState: withState, lrSeed: map[string]*lrEntry{}, memoOn: c.Opts.Memoize, memo: map[string][2]int{}}
	st := mstore{}
	for _, kv := range c.Opts.InitState {
		if kv[1] == "CNIL" {
			st = st.with(kv[0], mval{isCNil: true})
		} else if strings.HasPrefix(kv[1], "C:") {
			st = st.with(kv[0], mval{isC: true, c: strings.Split(kv[1][2:], ",")})
		} else if strings.HasPrefix(kv[1], "M:") {
			st = st.with(kv[0], mval{isM: true, c: []string{kv[1][2:]}})
		} else if strings.HasPrefix(kv[1], "V:") {
			st = st.with(kv[0], mval{isV: true, c: strings.Split(kv[1][2:], ",")})
		} else {
			st = st.with(kv[0], mval{s: kv[1]})
		}
	}
	start := g.Rules[0]
	if c.Opts.Entrypoint != "" {
		if r := g.RuleByName(c.Opts.Entrypoint); r != nil {
			start = r
		}
	}
	func() {
		defer func() {
			if e := recover(); e != nil {
				if a, ok := e.(modelAbort); ok {
					if a.why == "panic" {
						m.Panicked = true
					} else {
						m.Aborted = a.why
					}
					return
				}
				panic(e)
			}
		}()
		m.OK, m.End, m.Final = m.rule(start, 0, st)
	}()
	return m
}

func (m *Model) tick() {
	m.steps++
	if m.steps > 200000 {
		panic(modelAbort{"steps"})
	}
}

func (m *Model) event(kind byte, site, off int, text string, st mstore) (int, *kernel.Fault) {
	for len(m.counts) <= site {
		m.counts = append(m.counts, 0)
	}
	m.counts[site]++
	n := m.counts[site]
	max := m.plan.MaxEvents
	if max == 0 {
		max = 2000
	}
	if len(m.Events) >= max {
		panic(modelAbort{"events"})
	}
	state := "-"
	if m.withState {
		state = st.render()
	}
	m.Events = append(m.Events, MEvent{Site: site, Kind: kind, N: n, Off: off, Text: text, State: state})
	var fault *kernel.Fault
	for i := range m.plan.Faults {
		f := &m.plan.Faults[i]
		if f.Site == site && f.N == n {
			fault = f
		}
	}
	if fault != nil {
		if strings.HasPrefix(fault.Kind, "panic") {
			panic(modelAbort{"panic"})
		}
		m.errLog = append(m.errLog, len(m.Events)-1)
	}
	return n, fault
}

func lower(r rune) rune { return unicode.ToLower(r) }

func uclass(name string) *unicode.RangeTable {
	if t, ok := unicode.Categories[name]; ok {
		return t
	}
	if t, ok := unicode.Scripts[name]; ok {
		return t
	}
	if t, ok := unicode.Properties[name]; ok {
		return t
	}
	return nil
}

func (m *Model) classMatch(e *gen.Expr, r rune) bool {
	c := r
	if e.Fold {
		c = lower(c)
	}
	hit := false
	for _, x := range e.Chars {
		if e.Fold {
			x = lower(x)
		}
		if x == c {
			hit = true
		}
	}
	for i := 0; i+1 < len(e.Ranges); i += 2 {
		lo, hi := e.Ranges[i], e.Ranges[i+1]
		if e.Fold {
			lo, hi = lower(lo), lower(hi)
		}
		if c >= lo && c <= hi {
			hit = true
		}
	}
	for _, u := range e.UClass {
		if t := uclass(u); t != nil && unicode.Is(t, c) {
			hit = true
		}
	}
	return hit != e.Invert
}

func (m *Model) apply(st mstore, ops []kernel.StateOp) mstore {
	for _, op := range ops {
		switch op.Op {
		case "set":
			st = st.with(op.Key, mval{s: op.Val})
		case "del":
			st = st.without(op.Key)
		case "cset":
			st = st.with(op.Key, mval{isC: true, c: []string{op.Val}})
		case "cmut":
			if v, ok := st[op.Key]; ok && v.isC {
				st = st.with(op.Key, mval{isC: true, c: append(append([]string(nil), v.c...), op.Val)})
			} else {
				st = st.with(op.Key, mval{isC: true, c: []string{op.Val}})
			}
		case "nil":
			st = st.with(op.Key, mval{isNil: true})
		case "cnil":
			st = st.with(op.Key, mval{isCNil: true})
		case "mmut":
			if v, ok := st[op.Key]; ok && v.isM && len(v.c) > 0 {
				st = st.with(op.Key, mval{isM: true, c: []string{v.c[0] + "+" + op.Val}})
			} else {
				st = st.with(op.Key, mval{isM: true, c: []string{op.Val}})
			}
		case "sset":
			st = st.with(op.Key, mval{isW: true, c: []string{op.Val, op.Val + "b", op.Val + "c"}})
			st = st.with("t"+op.Key[1:], mval{isW: true, c: []string{op.Val}})
		case "smut":
			if v, ok := st[op.Key]; ok && v.isW {
				st = st.with(op.Key, mval{isW: true, c: append(append([]string(nil), v.c...), op.Val)})
			} else {
				st = st.with(op.Key, mval{isW: true, c: []string{op.Val}})
			}
		case "vmut":
			if v, ok := st[op.Key]; ok && v.isV && len(v.c) > 0 {
				c := append([]string(nil), v.c...)
				c[0] += "+" + op.Val
				st = st.with(op.Key, mval{isV: true, c: c})
			} else {
				st = st.with(op.Key, mval{isV: true, c: []string{op.Val}})
			}
		}
	}
	return st
}

// rule evaluates a rule. A directly left-recursive rule grows its seed
// (doc.go, "left recursion"): the body is evaluated repeatedly from the same
// offset, a recursive reference at that offset yielding the match grown so
// far, until an attempt fails or does not extend the match; that last attempt
// is abandoned together with the state changes and errors it made. State
// changes of the successful attempts accumulate in order, as they do in the
// iteration the rule denotes.
func (m *Model) rule(r *gen.Rule, o int, st mstore) (bool, int, mstore) {
	m.tick()
	if !m.directLR(r) {
		if m.memoOn {
			key := fmt.Sprintf("R%s@%d", r.Name, o)
			if h, ok := m.memo[key]; ok {
				return h[0] == 1, h[1], st
			}
			ok, end, st2 := m.eval(r.Expr, o, st)
			m.memo[key] = [2]int{b2i(ok), end}
			return ok, end, st2
		}
		return m.eval(r.Expr, o, st)
	}
	key := fmt.Sprintf("%s@%d", r.Name, o)
	if s, ok := m.lrSeed[key]; ok {
		// the match grown so far; a remembered result carries no store
		return s.ok, s.end, st
	}
	last := &lrEntry{ok: false, end: o, st: st}
	m.lrSeed[key] = last
	cur := st
	for depth := 0; ; depth++ {
		errMark := len(m.errLog)
		ok, end, st2 := m.eval(r.Expr, o, cur)
		if !ok || (end <= last.end && depth != 0) {
			m.errLog = m.errLog[:errMark]
			break
		}
		last = &lrEntry{ok: true, end: end, st: st2}
		m.lrSeed[key] = last
		cur = st2
	}
	return last.ok, last.end, last.st
}

func (m *Model) directLR(r *gen.Rule) bool {
	null := m.nullable()
	refs := map[string]bool{}
	gen.FirstRefs(r.Expr, null, refs)
	return refs[r.Name]
}

var nullCache = map[*gen.Grammar]map[string]bool{}

func (m *Model) nullable() map[string]bool {
	if n, ok := nullCache[m.g]; ok {
		return n
	}
	n := m.g.Nullable()
	nullCache[m.g] = n
	return n
}

func b2i(b bool) int {
	if b {
		return 1
	}
	return 0
}

func (m *Model) eval(e *gen.Expr, o int, st mstore) (bool, int, mstore) {
	if m.memoOn {
		key := fmt.Sprintf("E%d@%d", e.ID, o)
		if h, ok := m.memo[key]; ok {
			m.tick() // a loop whose every iteration is a hit must still run into the model's bound
			return h[0] == 1, h[1], st
		}
		ok, end, st2 := m.evalNode(e, o, st)
		m.memo[key] = [2]int{b2i(ok), end}
		return ok, end, st2
	}
	return m.evalNode(e, o, st)
}

func (m *Model) evalNode(e *gen.Expr, o int, st mstore) (bool, int, mstore) {
	m.tick()
	switch e.Kind {
	case gen.Lit:
		p := o
		for _, want := range e.Text {
			if p >= len(m.in) {
				return false, o, st
			}
			r, w := utf8.DecodeRune(m.in[p:])
			if e.Fold {
				r, want = lower(r), lower(want)
			}
			if r != want {
				return false, o, st
			}
			p += w
		}
		return true, p, st
	case gen.Class:
		if o >= len(m.in) {
			return false, o, st
		}
		r, w := utf8.DecodeRune(m.in[o:])
		if m.classMatch(e, r) {
			return true, o + w, st
		}
		return false, o, st
	case gen.Any:
		if o >= len(m.in) {
			return false, o, st
		}
		_, w := utf8.DecodeRune(m.in[o:])
		return true, o + w, st
	case gen.Seq:
		p, s := o, st
		for _, sub := range e.Subs {
			ok, p2, s2 := m.eval(sub, p, s)
			if !ok {
				return false, o, st
			}
			p, s = p2, s2
		}
		return true, p, s
	case gen.Choice:
		for _, alt := range e.Subs {
			if ok, p, s := m.eval(alt, o, st); ok {
				return true, p, s
			}
		}
		return false, o, st
	case gen.Star, gen.Plus:
		p, s := o, st
		n := 0
		for {
			ok, p2, s2 := m.eval(e.Subs[0], p, s)
			if !ok {
				break
			}
			n++
			p, s = p2, s2
		}
		if e.Kind == gen.Plus && n == 0 {
			return false, o, st
		}
		return true, p, s
	case gen.Opt:
		if ok, p, s := m.eval(e.Subs[0], o, st); ok {
			return true, p, s
		}
		return true, o, st
	case gen.And:
		ok, _, _ := m.eval(e.Subs[0], o, st)
		return ok, o, st
	case gen.Not:
		ok, _, _ := m.eval(e.Subs[0], o, st)
		return !ok, o, st
	case gen.Label:
		return m.eval(e.Subs[0], o, st)
	case gen.Action:
		ok, p, s := m.eval(e.Subs[0], o, st)
		if !ok {
			return false, o, st
		}
		m.event(kernel.KAct, e.Site, o, string(m.in[o:p]), s)
		return true, p, s
	case gen.AndCode, gen.NotCode:
		n, _ := m.event(kernel.KPred, e.Site, o, "", st)
		t := m.plan.PredTruth(e.Site, n)
		if e.Kind == gen.NotCode {
			t = !t
		}
		return t, o, st
	case gen.State:
		n, _ := m.event(kernel.KState, e.Site, o, "", st)
		return true, o, m.apply(st, m.plan.StateOps(e.Site, n))
	case gen.Ref:
		r := m.g.RuleByName(e.Name)
		if r == nil {
			return false, o, st
		}
		return m.rule(r, o, st)
	case gen.Recover:
		m.handlers = append(m.handlers, mhandler{labels: e.Labels, expr: e.Subs[1]})
		ok, p, s := m.eval(e.Subs[0], o, st)
		m.handlers = m.handlers[:len(m.handlers)-1]
		if !ok {
			return false, o, st
		}
		return true, p, s
	case gen.Throw:
		for i := len(m.handlers) - 1; i >= 0; i-- {
			h := m.handlers[i]
			for _, l := range h.labels {
				if l == e.Name {
					if ok, p, s := m.eval(h.expr, o, st); ok {
						return true, p, s
					}
					break
				}
			}
		}
		return false, o, st
	}
	return false, o, st
}

package parsersim

import (
	"fmt"

	"verifsim/simrt"
)

// withStateStore says whether this template variant keeps a state store.
func (p *Parser) withStateStore() bool { return p.Has["InitState"] }

// alignedModel runs the model for a fault-free call and checks that the real
// history has the same alignment keys; it returns nil when the model does not
// apply or does not agree about matching (an unclaimed divergence).
func alignedModel(p *Parser, c *Call, r *CallResult) (*Model, int) {
	if (c.Opts.MaxExpr != 0 && c.Opts.MaxExpr < 1<<30) || c.Opts.AllowInvalidUTF8 {
		return nil, -1 // (the model knows no budgets; one that cannot run out is no budget)
	}
	if c.Opts.Memoize && contains(p.Flags, "-support-left-recursion") {
		return nil, -1 // the model's memo does not cover the interplay with seed growing
	}
	m := RunModel(p.Grammar(), c, p.withStateStore())
	if m.Aborted != "" {
		return nil, -1
	}
	n := len(m.Events)
	if len(r.Events) < n {
		n = len(r.Events)
	}
	for i := 0; i < n; i++ {
		if m.Events[i].Key() != r.Events[i].Key() {
			return nil, i
		}
	}
	if len(m.Events) != len(r.Events) {
		return nil, n
	}
	if m.OK && parserFailed(r) {
		// the same blocks in the same order, but the model matched and the parser
		// did not: they disagree about matching somewhere (16.10)
		return nil, n
	}
	return m, -1
}

// parserFailed says whether the parse failed on its own account: no value and
// an error the parser made itself (the synthetic no-match error), as opposed to
// a match whose value happens to be nil and whose errors were all returned by
// code blocks.
func parserFailed(r *CallResult) bool {
	if !r.ValueNil || r.ErrNil {
		return false
	}
	for _, e := range r.Errs {
		if e.InjectedIdx < 0 {
			return true
		}
	}
	return len(r.Errs) == 0
}

func modelPositions(p *Parser, c *Call, R0 *CallResult) PosOracle {
	cc := *c
	cc.Plan.Faults = nil
	m, _ := alignedModel(p, &cc, R0)
	if m == nil {
		return nil
	}
	return func(seq int) (int, bool) {
		if seq < 0 || seq >= len(m.Events) {
			return 0, false
		}
		return m.Events[seq].Off, true
	}
}

// campaignC05 compares, event by event, the state store that code blocks see
// in the real parser (under a simulated pool with a foreign user and
// misbehaving blocks) with the store of the reference model.
func campaignC05(p *Parser, req *Request, resp *Response) {
	call := req.Call
	if contains(p.Flags, "-support-left-recursion") || !p.Has["Memoize"] {
		call.Opts.Memoize = false // the model's memo does not cover the interplay with seed growing
	}
	call.Opts.MaxExpr = 0
	call.Opts.AllowInvalidUTF8 = false
	call.Plan.Faults = nil
	stepCap := req.StepCap
	m := RunModel(p.Grammar(), &call, p.withStateStore())
	if m.Aborted != "" {
		resp.stat("model_aborted_"+m.Aborted, 1)
		return
	}
	runs := req.PoolRuns
	if runs < 1 {
		runs = 1
	}
	for k := 0; k < runs; k++ {
		if !req.UseReplay {
			simrt.SetSeed(req.Seed + uint64(k)*7919)
		}
		r := p.Solo(&call, req.Pool, stepCap)
		resp.Runs++
		for kk, v := range simsyncStats() {
			resp.stat("pool_"+kk, v)
		}
		if r.Aborted || r.Overflow {
			resp.stat("real_run_capped", 1)
			continue
		}
		attrs := map[string]string{"class": "", "optimized": fmt.Sprint(!p.Has["Memoize"]), "left_recursion": fmt.Sprint(contains(p.Flags, "-support-left-recursion"))}
		add := func(class, msg string, detail map[string]any) {
			a := map[string]string{}
			for kk, v := range attrs {
				a[kk] = v
			}
			a["class"] = class
			resp.Violations = append(resp.Violations, Violation{Class: class, Msg: msg, Attrs: a, Detail: detail, PoolRun: k, Choices: simrt.Choices()})
		}
		if r.Escaped != "" {
			add("unexpected-panic", "a panic reached the caller of Parse in a run without injected panics: "+r.Escaped, nil)
			continue
		}
		if r.Backward {
			add("globalstore-reverted", "an entry of globalStore written by a code block was lost or reverted (the kernel's counter did not equal the number of blocks run so far)", nil)
			continue
		}
		n := len(m.Events)
		if len(r.Events) < n {
			n = len(r.Events)
		}
		diverged := false
		// the model and the parser must agree about matching before their stores
		// are compared: the same blocks in the same order over the whole run, and
		// the same overall outcome. Where they do not, the difference is about
		// matching (another property's subject) and decides nothing here, even if
		// a store happens to differ earlier in the run.
		realFailed := parserFailed(r)
		// the parser ran other blocks than the model: is there a reading of the
		// parser's own path under which every block saw the store it should?
		onParsersPath := func() bool {
			if call.Opts.Memoize || contains(p.Flags, "-support-left-recursion") || !p.withStateStore() {
				return false
			}
			pathOK, storesOK, at, decided := explainRun(p.Grammar(), &call, r.Events, true)
			switch {
			case !decided:
				resp.stat("divergence_search_cut_short", 1)
			case !pathOK:
				resp.stat("divergence_without_any_reading_of_the_path", 1)
			case storesOK:
				resp.stat("divergence_with_stores_consistent_on_the_parsers_path", 1)
			default:
				if at >= len(r.Events) {
					at = len(r.Events) - 1
				}
				lo := at - 3
				if lo < 0 {
					lo = 0
				}
				var ctx []string
				for j := lo; j <= at && j >= 0; j++ {
					ctx = append(ctx, fmt.Sprintf("%s state=%s", r.Events[j].Key(), r.Events[j].State))
				}
				add("state-mismatch-on-parsers-path", fmt.Sprintf("the parser ran other blocks than the reference model (a difference about matching, not judged here); but whatever it matched - any outcome of every terminal, any number of iterations of every repetition - there is no reading of its path under which the blocks up to event %d saw the stores that backtracking must give them, while a reading that produces exactly these blocks exists", at), map[string]any{"event": at, "real_context": ctx})
				return true
			}
			return false
		}
		if len(m.Events) != len(r.Events) || (m.OK && realFailed) {
			resp.stat("unclaimed_divergence", 1)
			if len(m.Events) != len(r.Events) && onParsersPath() {
				continue
			}
			resp.Notes = append(resp.Notes, fmt.Sprintf("unclaimed divergence: model has %d events and ok=%v, real run %d events, value nil=%v, error nil=%v [%s input %q entry %q errors %q]", len(m.Events), m.OK, len(r.Events), r.ValueNil, r.ErrNil, req.ID, call.Input, call.Opts.Entrypoint, errMsgsShort(r)))
			continue
		}
		for i := 0; i < n; i++ {
			if m.Events[i].Key() != r.Events[i].Key() {
				resp.stat("unclaimed_divergence", 1)
				diverged = true
				if onParsersPath() {
					break
				}
				resp.Notes = append(resp.Notes, fmt.Sprintf("unclaimed divergence at event %d: model %s, real %s", i, m.Events[i].Key(), r.Events[i].Key()))
				break
			}
		}
		if diverged {
			continue
		}
		for i := 0; i < n; i++ {
			me, re := &m.Events[i], &r.Events[i]
			if me.Key() != re.Key() {
				// the real parser matched differently from the model: C01/C02 class, not claimed
				resp.stat("unclaimed_divergence", 1)
				resp.Notes = append(resp.Notes, fmt.Sprintf("unclaimed divergence at event %d: model %s, real %s", i, me.Key(), re.Key()))
				diverged = true
				break
			}
			if me.State != re.State {
				lo := i - 3
				if lo < 0 {
					lo = 0
				}
				var ctx []string
				for j := lo; j <= i; j++ {
					ctx = append(ctx, fmt.Sprintf("%s state=%s", r.Events[j].Key(), r.Events[j].State))
				}
				add("state-mismatch", fmt.Sprintf("event %d (%s): the block saw state %s but the store as defined by the successful path so far is %s", i, re.Key(), re.State, me.State), map[string]any{"event": i, "real_context": ctx, "model_state": me.State})
				diverged = true
				break
			}
		}
		if !diverged && len(m.Events) != len(r.Events) {
			resp.stat("unclaimed_divergence", 1)
			resp.Notes = append(resp.Notes, fmt.Sprintf("unclaimed divergence: model has %d events, real run %d", len(m.Events), len(r.Events)))
			diverged = true
		}
		if !diverged {
			resp.stat("runs_compared_to_end", 1)
			resp.stat("events_compared", len(r.Events))
		}
		// probes
		changes := 0
		for i := 1; i < len(r.Events); i++ {
			if r.Events[i].State != r.Events[i-1].State {
				changes++
				if len(r.Events[i].State) < len(r.Events[i-1].State) {
					resp.stat("probe_store_shrank_between_events", 1)
				}
			}
		}
		if changes > 0 {
			resp.stat("runs_with_state_changes", 1)
		}
	}
	resp.Sample = map[string]any{"parser": p.Name, "flags": p.Flags, "input": string(call.Input), "opts": call.Opts, "events": len(m.Events), "pool": req.Pool, "plan": call.Plan, "model_ok": m.OK}
	if req.Full && len(m.Events) > 0 {
		var ev []string
		for i := range m.Events {
			ev = append(ev, m.Events[i].Key()+" "+m.Events[i].State)
		}
		resp.Sample.(map[string]any)["model_history"] = ev
	}
}

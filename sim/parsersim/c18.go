package parsersim

import (
	"fmt"
	"hash/fnv"

	"verifsim/simmap"
	"verifsim/simrt"
	"verifsim/simsync"
)

func resultDigest(r *CallResult) []string {
	out := []string{"value=" + r.Value, fmt.Sprintf("err_nil=%v escaped=%s exprcnt=%d", r.ErrNil, r.Escaped, r.ExprCnt), "choice statistics: " + r.StatsDigest}
	for _, e := range r.Errs {
		out = append(out, "err: "+e.Msg)
	}
	for i := range r.Events {
		out = append(out, r.Events[i].String())
	}
	return out
}

// campaignC18 runs several clients, each issuing Parse calls on the same
// generated package, under the seeded scheduler and one shared simulated
// pool, and compares every call with the same call executed alone.
func digestHash(d []string) string {
	h := fnv.New64a()
	for _, l := range d {
		h.Write([]byte(l))
		h.Write([]byte{0})
	}
	return fmt.Sprintf("%x", h.Sum64())
}

// campaignC18Solo runs every call of the request alone and returns the hashes
// of the result digests. The parent runs it in a fresh process: "alone" then
// also means alone in the process, so that state the package keeps between
// calls (caches filled by whoever came first) cannot hide in both sides of the
// comparison.
func campaignC18Solo(p *Parser, req *Request, resp *Response) {
	prepareFiles(p, req.Clients)
	for i := range req.Clients {
		var row []string
		for j := range req.Clients[i] {
			c := req.Clients[i][j]
			r := p.Solo(&c, simsync.PoolConfig{}, req.StepCap)
			resp.Runs++
			if r.Aborted || r.Overflow {
				row = append(row, "capped")
				continue
			}
			row = append(row, digestHash(resultDigest(r)))
			if req.Full {
				resp.Results = append(resp.Results, r)
			}
		}
		resp.Digests = append(resp.Digests, row)
	}
}

func campaignC18(p *Parser, req *Request, resp *Response) {
	clients := req.Clients
	stepCap := req.StepCap
	h0 := DeepHash(p.G())
	// 1. together
	simsync.Reset(req.Pool)
	simmap.Configure(simmap.Asc, 0, false)
	if req.UseReplay {
		simrt.SetReplay(req.Replay)
	} else {
		simrt.SetSeed(req.Seed)
	}
	sc := req.Sched
	if sc.Strategy == simrt.StratPCT && len(sc.ChangePoints) == 0 {
		d := sc.SwitchOneIn // depth
		if d < 1 {
			d = 1
		}
		// the change points are spread over a rough estimate of the run's length
		span := 0
		for i := range clients {
			for j := range clients[i] {
				span += 300 + 150*len(clients[i][j].Input)
			}
		}
		for k := 0; k < d; k++ {
			sc.ChangePoints = append(sc.ChangePoints, 1+simrt.Choose(span))
		}
	}
	prepareFiles(p, clients)
	if p.Prebuild != nil {
		seen := map[string]bool{}
		var keys []string
		for i := range clients {
			for j := range clients[i] {
				for _, k := range clients[i][j].Opts.SharedKeys() {
					if !seen[k] {
						seen[k] = true
						keys = append(keys, k)
					}
				}
			}
		}
		simrt.Solo(1 << 40) // the option constructors are instrumented code: no stale client, no cap
		p.Prebuild(keys)
		resp.stat("shared_option_values", len(keys))
	}
	results := make([][]*CallResult, len(clients))
	bodies := make([]func(*simrt.Client), len(clients))
	for i := range clients {
		i := i
		results[i] = make([]*CallResult, len(clients[i]))
		bodies[i] = func(cl *simrt.Client) {
			for j := range clients[i] {
				c := clients[i][j]
				// the cap bounds one call, as it does in the solo runs (it used to bound
				// the sum of a client's calls: three heavy calls of one client looked
				// like one call that never returns)
				cl.Cap = cl.Steps + stepCap
				results[i][j] = p.Exec(&c, cl)
				if cl.Aborted {
					return
				}
			}
		}
	}
	simrt.TraceOn(true)
	cls, dead := simrt.RunClients(sc, stepCap, bodies)
	for _, c := range cls {
		simrt.JoinClient(c)
	}
	simrt.TraceOn(false)
	resp.Runs += len(clients)
	h1 := DeepHash(p.G())
	concChoices := simrt.Choices()
	// what the simulator did in the concurrent run (before the solo runs reset it)
	switches := 0
	for _, c := range cls {
		switches += c.Switches
	}
	yields := int(simrt.Yields())
	tr := simrt.Trace()
	poolStats := simsyncStats()
	record := func() {
		resp.stat("context_switches", switches)
		if switches > 0 {
			resp.stat("schedules_with_preemption", 1)
		}
		resp.stat("scheduling_points", yields)
		hh := fnv.New64a()
		for _, x := range tr {
			hh.Write([]byte{byte(x), byte(x >> 8), byte(x >> 16)})
		}
		resp.Hashes = append(resp.Hashes, fmt.Sprintf("%x", hh.Sum64()))
		// how many calls were inside Parse at the same time (entry/exit events)
		inFlight, maxInFlight := 0, 0
		for _, x := range tr {
			switch int(x & 0xff) {
			case simrt.YEntry:
				inFlight++
				if inFlight > maxInFlight {
					maxInFlight = inFlight
				}
			case simrt.YExit:
				inFlight--
			}
		}
		resp.statMax("max_calls_in_flight", maxInFlight)
		for k, v := range poolStats {
			resp.stat("pool_"+k, v)
		}
	}
	if dead {
		record()
		// a client that never finished never released its join edge: its results
		// must not be read (the race build would, rightly, call that a race of the
		// harness)
		resp.Violations = append(resp.Violations, Violation{Class: "deadlock", Msg: "the clients blocked each other: no client could run although not all were done", Choices: concChoices,
			Attrs: map[string]string{"class": "deadlock", "clients": fmt.Sprint(len(clients)), "optimized": fmt.Sprint(!p.Has["Memoize"]), "strategy": fmt.Sprint(sc.Strategy)}})
		return
	}
	// 3. every call alone, on fresh pools, no scheduler. The calls are run
	// alone only after the concurrent run, so that the concurrent run meets the
	// package in whatever state earlier cases of this process left it (cold at
	// the start of a process): lazily initialised shared state is then exercised
	// under concurrency, not warmed up first.
	solo := make([][]*CallResult, len(clients))
	for i := range clients {
		solo[i] = make([]*CallResult, len(clients[i]))
		for j := range clients[i] {
			c := clients[i][j]
			r := p.Solo(&c, simsync.PoolConfig{}, stepCap)
			resp.Runs++
			if r.Aborted || r.Overflow {
				resp.stat("solo_capped", 1)
				resp.Notes = append(resp.Notes, fmt.Sprintf("solo run hit the step cap: parser %s flags %v input %q grammar %q", p.Name, p.Flags, c.Input, p.GrammarText))
				return
			}
			solo[i][j] = r
		}
	}
	record()
	for i := range clients {
		var row []string
		for j := range clients[i] {
			switch r := results[i][j]; {
			case r == nil:
				row = append(row, "lost")
			case r.Aborted || r.Overflow:
				row = append(row, "capped")
			default:
				row = append(row, digestHash(resultDigest(r)))
			}
		}
		resp.Digests = append(resp.Digests, row)
	}
	add := func(class, msg string, detail map[string]any) {
		resp.Violations = append(resp.Violations, Violation{Class: class, Msg: msg, Detail: detail, Choices: concChoices,
			Attrs: map[string]string{"class": class, "clients": fmt.Sprint(len(clients)), "optimized": fmt.Sprint(!p.Has["Memoize"]), "strategy": fmt.Sprint(sc.Strategy)}})
	}
	if h0 != h1 {
		// Not a violation by itself: a correctly synchronised, lazily filled cache
		// inside the grammar would also change the hash. What the property forbids
		// - a data race, or a call that returns something else than alone - is
		// judged by the race build and by the comparisons below.
		resp.stat("grammar_value_changed_during_run", 1)
		resp.Notes = append(resp.Notes, "the package-level grammar value changed during the concurrent run of "+p.Name)
	}
	for i := range clients {
		for j := range clients[i] {
			r := results[i][j]
			if r == nil {
				add("call-lost", fmt.Sprintf("client %d call %d never returned", i, j), nil)
				continue
			}
			if r.Aborted || r.Overflow {
				add("not-bounded", fmt.Sprintf("client %d call %d did not return within the step cap under this schedule although it does alone", i, j), nil)
				continue
			}
			if now := r.ValueNow(); now != r.Value {
				add("returned-value-changed-later", fmt.Sprintf("client %d call %d returned %s; after the other calls of the schedule had run, the value the caller kept reads %s", i, j, clip(r.Value, 200), clip(now, 200)), nil)
				continue
			}
			if now := r.ErrTextNow(); now != r.ErrText && r.Escaped == "" {
				add("returned-error-changed-later", fmt.Sprintf("client %d call %d returned the error %q; after the other calls of the schedule had run, the error the caller kept reads %q", i, j, clip(r.ErrText, 300), clip(now, 300)), nil)
				continue
			}
			if r.InputTailModified {
				add("caller-memory-modified", fmt.Sprintf("client %d call %d: Parse wrote behind the input slice it was given; inputs that are windows on one buffer (records of a read buffer parsed side by side) then overwrite each other", i, j), nil)
			}
			if r.OptsModified {
				add("caller-options-modified", fmt.Sprintf("client %d call %d: Parse wrote into the spare capacity of the option slice it was given; two goroutines whose option lists share one array (common := make([]Option, 0, 8); strict := append(common, x); one goroutine parses with common..., the other with strict...) then race on it and lose options", i, j), nil)
				break
			}
			got, want := resultDigest(r), resultDigest(solo[i][j])
			if ok, at := sameStrings(got, want); !ok {
				add("differs-from-solo", fmt.Sprintf("client %d call %d returned something else than the same call run alone (first difference at line %d of the digest)", i, j, at),
					map[string]any{"client": i, "call": j, "concurrent": around(got, at), "alone": around(want, at), "input": string(clients[i][j].Input), "opts": clients[i][j].Opts})
				break
			}
			resp.stat("calls_equal_to_solo", 1)
		}
	}
	resp.Sample = map[string]any{"parser": p.Name, "flags": p.Flags, "clients": len(clients), "sched": sc, "pool": req.Pool, "switches": switches, "interaction_trace_len": len(tr)}
}

func clip(s string, n int) string {
	if len(s) > n {
		return s[:n] + "..."
	}
	return s
}

package parsersim

import (
	"fmt"
	"math"
	"strings"

	"verifsim/gen"
	"verifsim/simrt"
)

const maxExprMsg = "max number of expressions parsed"

// stepConst is a generous bound on the instrumentation steps one expression
// evaluation can cost in this grammar (function entries and loop iterations
// of the runtime, excluding sub-expressions, which are charged themselves).
func stepConst(g *gen.Grammar, nkeys int) int64 {
	c := int64(400)
	for _, r := range g.Rules {
		gen.Walk(r.Expr, func(e *gen.Expr) {
			n := int64(len(e.Subs) + len([]rune(e.Text)) + len(e.Chars) + len(e.Ranges) + len(e.UClass) + len(e.Labels))
			if 8*n > c-400 {
				c = 400 + 8*n
			}
		})
	}
	// state clone / discard / restore loops run per key, several times per expression
	c += int64(nkeys+4) * 40
	return c
}

func historyKeys(r *CallResult) []string {
	out := make([]string, len(r.Events))
	for i := range r.Events {
		e := &r.Events[i]
		out[i] = e.String()
	}
	return out
}

func sameStrings(a, b []string) (bool, int) {
	n := len(a)
	if len(b) < n {
		n = len(b)
	}
	for i := 0; i < n; i++ {
		if a[i] != b[i] {
			return false, i
		}
	}
	if len(a) != len(b) {
		return false, n
	}
	return true, -1
}

func errMsgs(r *CallResult) []string {
	out := make([]string, len(r.Errs))
	for i, e := range r.Errs {
		out[i] = e.Msg
	}
	return out
}

// errMsgsShort is errMsgs for messages: long lists are shown by their first
// six and last three elements.
func errMsgsShort(r *CallResult) []string {
	m := errMsgs(r)
	if len(m) <= 12 {
		return m
	}
	out := append([]string(nil), m[:6]...)
	out = append(out, fmt.Sprintf("... %d more ...", len(m)-9))
	return append(out, m[len(m)-3:]...)
}

// campaignC16 re-executes one (grammar, input, options) under a deadline at
// every expression tick and compares each bounded run with the reference.
func campaignC16(p *Parser, req *Request, resp *Response) {
	g := p.Grammar()
	nkeys := req.Call.Plan.StateKeys * 2
	C := stepConst(g, nkeys)
	ref := req.RefBudget
	if ref == 0 {
		ref = 3000
	}
	// without the Statistics option the parser's own default Stats value is the
	// clock and the tick stamps are unavailable: the weaker oracle applies
	countKnown := p.Has["Statistics"] && req.Call.Opts.Stats // bounded runs report their ExprCnt
	ticksKnown := countKnown                                 // reference events carry tick stamps
	call := req.Call
	call.Opts.Stats = countKnown
	call.Opts.MaxExpr = ref
	recoverOn := call.Opts.Recover == nil || *call.Opts.Recover
	leftRec := contains(p.Flags, "-support-left-recursion") && g.LeftRecursive()

	attrs := func(n uint64, cl string) map[string]string {
		return map[string]string{
			"class": cl, "memoize": fmt.Sprint(call.Opts.Memoize), "recover": fmt.Sprint(recoverOn),
			"debug": fmt.Sprint(call.Opts.Debug), "optimized": fmt.Sprint(!p.Has["Memoize"]),
			"left_recursion": fmt.Sprint(contains(p.Flags, "-support-left-recursion")),
		}
	}
	var viol func(n uint64, class, msg string, detail map[string]any)
	violAt := func(n uint64, class, msg string, detail map[string]any) {
		if detail == nil {
			detail = map[string]any{}
		}
		detail["budget"] = n
		resp.Violations = append(resp.Violations, Violation{Class: class, Msg: fmt.Sprintf("MaxExpressions(%d): %s", n, msg), Attrs: attrs(n, class), Detail: detail, Budgets: []uint64{n}})
	}

	viol = violAt
	R := p.Solo(&call, req.Pool, int64(ref+2)*C)
	resp.Runs++
	if R.Aborted || R.Overflow {
		if R.Overflow {
			resp.stat("reference_event_overflow", 1)
			return
		}
		viol(ref, "not-bounded", fmt.Sprintf("the parse did not return within %d instrumentation steps (budget %d x %d per expression); ExprCnt=%d", int64(ref+2)*C, ref, C, R.ExprCnt), nil)
		return
	}
	const optsMsg = "Parse wrote into the spare capacity of the option slice it was given: a program that keeps several option lists in one array (common := make([]Option, 0, 8); strict := append(common, MaxExpressions(n))) loses the options stored there - the budget of a later call among them"
	if R.InputTailModified {
		viol(ref, "caller-memory-modified", "Parse wrote behind the input slice it was given (a window on a larger buffer of the caller's)", nil)
	}
	if R.OptsModified {
		viol(ref, "caller-options-modified", optsMsg, nil)
		return
	}
	refExhausted := false
	for _, e := range R.Errs {
		if e.InnerMsg == maxExprMsg {
			refExhausted = true
		}
	}
	if R.Escaped != "" && strings.Contains(R.Escaped, maxExprMsg) {
		refExhausted = true
	}
	N := R.ExprCnt // expressions the reference evaluated (0 when the variant has no Statistics)
	tickOf := make([]uint64, len(R.Events))
	for i := range R.Events {
		tickOf[i] = R.Events[i].Tick
	}
	if !countKnown && p.Has["Statistics"] {
		// the caller did not ask for statistics: the parser's own default Stats
		// value is the clock. Calibrate the tick of every reference event with a
		// twin run that only adds the Statistics option.
		cs := call
		cs.Opts.Stats = true
		Rs := p.Solo(&cs, req.Pool, int64(ref+2)*C)
		resp.Runs++
		okH, _ := sameStrings(historyKeys(Rs), historyKeys(R))
		okE, _ := sameStrings(errMsgs(Rs), errMsgs(R))
		if !Rs.Aborted && !Rs.Overflow && okH && okE && Rs.Value == R.Value {
			ticksKnown = true
			N = Rs.ExprCnt
			for i := range Rs.Events {
				tickOf[i] = Rs.Events[i].Tick
			}
			resp.stat("ticks_from_statistics_twin", 1)
		} else {
			// whether Statistics may change a result is C06's subject, not ours
			resp.stat("unclaimed_divergence_statistics_twin", 1)
		}
	}
	if !ticksKnown && !p.Has["Statistics"] && req.TwinParser != "" {
		// -optimize-parser variants cannot report their expression count. The same
		// grammar generated without the flag can: when it produces the same history
		// (same blocks, same order, same actions at the same offsets with the same
		// text) and the same errors, its tick stamps are the clock of this run.
		if tp := Lookup(req.TwinParser); tp != nil {
			cs := call
			cs.Opts.Stats = true
			Rt := tp.Solo(&cs, req.Pool, int64(ref+2)*C)
			resp.Runs++
			same := !Rt.Aborted && !Rt.Overflow && len(Rt.Events) == len(R.Events) && Rt.ValueNil == R.ValueNil
			for i := 0; same && i < len(R.Events); i++ {
				same = Rt.Events[i].Key() == R.Events[i].Key()
			}
			if okE, _ := sameStrings(errMsgs(Rt), errMsgs(R)); !okE {
				same = false
			}
			if same {
				ticksKnown = true
				N = Rt.ExprCnt
				for i := range Rt.Events {
					tickOf[i] = Rt.Events[i].Tick
				}
				resp.stat("ticks_from_unoptimized_twin", 1)
			} else {
				// whether the two template variants agree is C10's subject, not ours
				resp.stat("unclaimed_divergence_unoptimized_twin", 1)
			}
		}
	}
	if refExhausted {
		resp.stat("reference_exhausted_budget", 1)
	}
	if refExhausted && countKnown && len(req.Carries) == 0 {
		// the reference itself carries a budget (ref). Is it really needed? The
		// same call without any MaxExpressions option, under the same step bound:
		// if that returns having evaluated no more than ref expressions, the
		// budget was not exhausted and must not have been reported.
		cu := call
		cu.Opts.MaxExpr = 0
		U := p.Solo(&cu, req.Pool, int64(ref+2)*C)
		resp.Runs++
		resp.stat("unbounded_runs_for_exhausted_references", 1)
		if !U.Aborted && !U.Overflow && U.Escaped == "" && U.ExprCnt > 0 && U.ExprCnt <= ref {
			viol(ref, "budget-reported-early", fmt.Sprintf("the parse without any budget returns after %d expressions, but with MaxExpressions(%d) the budget error was reported", U.ExprCnt, ref), map[string]any{"unbounded_value": U.Value, "unbounded_errors": errMsgs(U)})
			return
		}
		if !U.Aborted && !U.Overflow {
			resp.stat("unbounded_runs_that_returned", 1)
		}
	}
	if countKnown && !refExhausted && R.ExprCnt > 0 {
		resp.statMax("max_steps_per_expr", int(R.Steps/int64(R.ExprCnt)))
	}
	refHist := historyKeys(R)
	refErrs := errMsgs(R)
	resp.stat("reentrant_parses_in_reference_runs", R.Nested)
	if R.Nested > 0 && !countKnown && ticksKnown {
		resp.stat("cases_reentrant_and_default_stats", 1)
	}

	// which budgets
	var budgets []uint64
	if len(req.Carries) > 0 {
		// replay of a reused-Stats violation: only that sub-check runs
	} else if len(req.Budgets) > 0 {
		budgets = req.Budgets
	} else {
		top := N + 1
		if !ticksKnown || refExhausted {
			top = ref
		}
		enum := uint64(req.EnumMax)
		if enum == 0 {
			enum = 300
		}
		if top <= enum {
			for n := uint64(1); n <= top; n++ {
				budgets = append(budgets, n)
			}
			resp.stat("cases_fully_enumerated", 1)
		} else {
			for n := uint64(1); n <= 40; n++ {
				budgets = append(budgets, n)
			}
			for i := 0; i < int(enum)-50; i++ {
				budgets = append(budgets, 41+uint64(simrt.Choose(int(top-40))))
			}
			for n := top - 9; n <= top; n++ {
				budgets = append(budgets, n)
			}
		}
		if !refExhausted {
			// budgets far beyond what the parse needs, at the edges of the counter's
			// type, and no budget at all (0 here: the option is not passed): the
			// reference did not exhaust its own budget, so all of these are "a
			// budget that is not exhausted" and the unbounded parse respectively
			huge := []uint64{1 << 31, 1<<32 + 1, 1<<63 - 1, 1 << 63, math.MaxUint64 - 1, math.MaxUint64}
			budgets = append(budgets, huge[simrt.Choose(len(huge))], huge[simrt.Choose(len(huge))], 0)
		}
	}

	var prevHist []string
	var prevN uint64
	for _, given := range budgets {
		c := call
		c.Opts.MaxExpr = given
		n := given
		if given == 0 {
			n = math.MaxUint64 // no MaxExpressions option: the unbounded parse
		}
		viol := func(_ uint64, class, msg string, detail map[string]any) {
			if given == 0 {
				msg = "(budget 0 stands for: no MaxExpressions option at all) " + msg
			}
			violAt(given, class, msg, detail)
		}
		lim := n
		if lim > ref && !refExhausted {
			lim = ref // the reference returned within ref expressions; so must this run
		}
		if lim > 1<<40 {
			lim = 1 << 40
		}
		r := p.Solo(&c, req.Pool, int64(lim+2)*C)
		resp.Runs++
		resp.stat("bounded_runs", 1)
		if n > ref {
			resp.stat("huge_or_no_budget_runs", 1)
		}
		if r.Aborted {
			viol(n, "not-bounded", fmt.Sprintf("the parse did not return within %d instrumentation steps (%d per expression allowed); ExprCnt=%d", int64(lim+2)*C, C, r.ExprCnt), nil)
			continue
		}
		if r.Overflow {
			continue
		}
		hist := historyKeys(r)
		exhausted := false
		for _, e := range r.Errs {
			if e.InnerMsg == maxExprMsg {
				exhausted = true
			}
		}
		escapedBudget := r.Escaped != "" && strings.Contains(r.Escaped, maxExprMsg)
		if countKnown && n < math.MaxUint64-1 && r.ExprCnt > n+1 {
			viol(n, "budget-exceeded", fmt.Sprintf("%d expressions were evaluated", r.ExprCnt), nil)
		}
		// every code-block invocation is itself one evaluated expression, so even
		// without a readable clock: more than n events means more than n
		// expressions, and a reference with more than n events cannot fit in n
		if uint64(len(hist)) > n {
			viol(n, "budget-exceeded", fmt.Sprintf("%d code blocks ran, each of which is at least one evaluated expression", len(hist)), nil)
			continue
		}
		mustExhaust := ticksKnown && !refExhausted && n < N || refExhausted && n < ref || !refExhausted && uint64(len(refHist)) > n
		mustEqual := ticksKnown && !refExhausted && n >= N || !refExhausted && n >= ref
		if escapedBudget {
			resp.stat("budget_panic_escaped", 1)
			viol(n, "budget-panic-escaped", "the budget exhaustion reached the caller as a panic instead of being reported as an error: "+r.Escaped, nil)
			continue
		}
		if r.Escaped != "" && R.Escaped == "" {
			viol(n, "unexpected-panic", "a panic reached the caller: "+r.Escaped, nil)
			continue
		}
		if mustExhaust && !exhausted {
			viol(n, "budget-not-reported", fmt.Sprintf("the reference needs %d expressions but the bounded parse did not report %q; errors: %q", N, maxExprMsg, errMsgs(r)), map[string]any{"value": r.Value})
			continue
		}
		if mustEqual || (!exhausted && !mustExhaust) {
			// budget not exhausted: identical to the reference
			if exhausted && mustEqual {
				viol(n, "budget-reported-early", fmt.Sprintf("the reference needs only %d expressions but the budget error was reported", N), nil)
				continue
			}
			if ok, at := sameStrings(hist, refHist); !ok {
				viol(n, "unexhausted-differs", fmt.Sprintf("history differs from the reference run at event %d", at), map[string]any{"got": around(hist, at), "want": around(refHist, at)})
				continue
			}
			if r.Value != R.Value {
				viol(n, "unexhausted-differs", "value differs from the reference run", map[string]any{"got": r.Value, "want": R.Value})
				continue
			}
			if r.Escaped != R.Escaped {
				viol(n, "unexhausted-differs", fmt.Sprintf("what reaches the caller as a panic differs from the reference run: %q vs %q", r.Escaped, R.Escaped), nil)
				continue
			}
			if ok, _ := sameStrings(errMsgs(r), refErrs); !ok {
				viol(n, "unexhausted-differs", "errors differ from the reference run", map[string]any{"got": errMsgs(r), "want": refErrs})
				continue
			}
			resp.stat("unexhausted_equal", 1)
			continue
		}
		// exhausted
		resp.stat("exhausted_runs", 1)
		if !r.ValueNil {
			viol(n, "value-after-exhaustion", "a value was returned together with the budget error: "+r.Value, nil)
		}
		last := r.Errs[len(r.Errs)-1]
		if last.InnerMsg != maxExprMsg || !last.IsParserError || !r.ErrIsList {
			viol(n, "budget-error-not-last", fmt.Sprintf("the budget error is not the last, typed element of the error list: %q", errMsgs(r)), nil)
		}
		// earlier errors: ordered prefix-compatible with the reference's errors
		// (not under left recursion: seed growing drops the errors of an abandoned
		// attempt later on, so the reference may have lost what was recorded here)
		early := errMsgs(r)[:len(r.Errs)-1]
		if leftRec {
			early = nil
		}
		for i, m := range early {
			if i >= len(refErrs) || refErrs[i] != m {
				if !(refExhausted) { // a reference that itself ran out has an incomparable tail
					viol(n, "errors-not-prefix", fmt.Sprintf("error %d (%q) is not what the reference run reported at that place: %q", i, m, refErrs), nil)
				}
				break
			}
		}
		// history: exactly the reference events that happened up to tick n
		if ticksKnown {
			var want []string
			for i := range R.Events {
				if tickOf[i] <= n {
					want = append(want, refHist[i])
				}
			}
			if !(refExhausted && n >= ref) {
				if ok, at := sameStrings(hist, want); !ok {
					viol(n, "history-not-prefix", fmt.Sprintf("the bounded run's history is not the reference history up to tick %d (first difference at event %d)", n, at), map[string]any{"got": around(hist, at), "want": around(want, at)})
				} else {
					resp.stat("prefix_checked", 1)
				}
			}
		} else {
			if len(hist) > len(refHist) {
				viol(n, "history-not-prefix", "the bounded run has more events than the reference", nil)
			} else if ok, at := sameStrings(hist, refHist[:len(hist)]); !ok {
				viol(n, "history-not-prefix", fmt.Sprintf("the bounded run's history is not a prefix of the reference history (event %d)", at), map[string]any{"got": around(hist, at), "want": around(refHist, at)})
			} else if prevHist != nil && n >= prevN && len(hist) < len(prevHist) {
				viol(n, "history-not-monotone", fmt.Sprintf("budget %d ran fewer code blocks than budget %d", n, prevN), nil)
			} else {
				resp.stat("prefix_checked", 1)
			}
			prevHist, prevN = hist, n
		}
	}
	// a Stats value reused from an earlier parse: its count is already beyond the
	// budget; this parse must still not evaluate more than n expressions
	runCarry := func(n, carry uint64) bool {
		c := call
		c.Opts.MaxExpr = n
		c.Opts.StatsCarry = carry
		r := p.Solo(&c, req.Pool, int64(n+2)*C)
		resp.Runs++
		resp.stat("reused_stats_runs", 1)
		if r.Aborted {
			viol(n, "not-bounded", fmt.Sprintf("with a reused Stats value (ExprCnt already %d) the parse did not return within %d steps", carry, int64(n+2)*C), map[string]any{"stats_carry": carry})
			resp.Violations[len(resp.Violations)-1].Carries = []uint64{carry}
			return false
		}
		if r.ExprCnt > carry && r.ExprCnt-carry > n+1 {
			viol(n, "budget-exceeded", fmt.Sprintf("with a reused Stats value (ExprCnt already %d) %d expressions were evaluated", carry, r.ExprCnt-carry), map[string]any{"stats_carry": carry})
			resp.Violations[len(resp.Violations)-1].Carries = []uint64{carry}
			return false
		}
		return true
	}
	// ... and a budget near the top of the counter's range with a Stats value
	// that was used before: nowhere near exhausted, so identical to the reference
	runCarryHuge := func(n, carry uint64) bool {
		c := call
		c.Opts.MaxExpr = n
		c.Opts.StatsCarry = carry
		r := p.Solo(&c, req.Pool, int64(ref+2)*C)
		resp.Runs++
		resp.stat("reused_stats_huge_budget_runs", 1)
		bad := ""
		switch {
		case r.Aborted:
			bad = "did not return within the reference's step bound"
		case r.Escaped != R.Escaped:
			bad = "panicked: " + r.Escaped
		case r.Value != R.Value:
			bad = "value " + r.Value + " instead of " + R.Value
		default:
			if ok, _ := sameStrings(errMsgs(r), refErrs); !ok {
				bad = fmt.Sprintf("errors %q instead of %q", errMsgs(r), refErrs)
			} else if ok, at := sameStrings(historyKeys(r), refHist); !ok {
				bad = fmt.Sprintf("history differs at event %d", at)
			}
		}
		if bad != "" {
			viol(n, "unexhausted-differs", fmt.Sprintf("with a reused Stats value (ExprCnt already %d) and a budget that cannot be exhausted the parse %s", carry, bad), map[string]any{"stats_carry": carry})
			resp.Violations[len(resp.Violations)-1].Carries = []uint64{carry}
			return false
		}
		return true
	}
	if len(req.Carries) > 0 {
		for i, carry := range req.Carries {
			if i < len(req.Budgets) {
				if req.Budgets[i] > 1<<62 {
					runCarryHuge(req.Budgets[i], carry)
				} else {
					runCarry(req.Budgets[i], carry)
				}
			}
		}
	} else if countKnown && !refExhausted && N >= 4 && len(req.Budgets) == 0 {
		for k := 0; k < 3; k++ {
			n := 1 + uint64(simrt.Choose(int(N-2)))
			if !runCarry(n, n+1+uint64(simrt.Choose(40))) {
				break
			}
		}
		runCarryHuge(math.MaxUint64-uint64(simrt.Choose(3)), 1+uint64(simrt.Choose(int(N)+40)))
	}
	// a bounded call right after another call in the same process, the pools
	// and whatever else the package keeps as the first one left them: a budget
	// that suffices alone suffices then too
	if ticksKnown && !refExhausted && N >= 2 && len(req.Budgets) == 0 && len(req.Carries) == 0 && len(resp.Violations) == 0 {
		first := p.Solo(&call, req.Pool, int64(ref+2)*C)
		c2 := call
		c2.Opts.MaxExpr = N + 3
		r2 := p.After(&c2, int64(ref+2)*C)
		resp.Runs += 2
		resp.stat("bounded_runs_right_after_another_call", 1)
		bad := ""
		switch {
		case first.Aborted || first.Overflow || r2.Overflow:
		case r2.Aborted:
			bad = "did not return within the reference's step bound"
		case r2.Escaped != R.Escaped:
			bad = "panicked: " + r2.Escaped
		case r2.Value != R.Value:
			bad = "returned " + r2.Value + " instead of " + R.Value
		default:
			if ok, _ := sameStrings(errMsgs(r2), refErrs); !ok {
				bad = fmt.Sprintf("reported %q instead of %q", errMsgsShort(r2), refErrs)
			} else if ok, at := sameStrings(historyKeys(r2), refHist); !ok {
				bad = fmt.Sprintf("ran other blocks (history differs at event %d)", at)
			}
		}
		if bad != "" {
			resp.Violations = append(resp.Violations, Violation{Class: "unexhausted-differs", Attrs: attrs(N+3, "unexhausted-differs"),
				Msg: fmt.Sprintf("MaxExpressions(%d) suffices when the call is made alone (it needs %d expressions), but made right after another call of the same process it %s", N+3, N, bad)})
		}
	}
	// the error of an exhausted call is kept by its caller while other calls
	// of the process run (and fail in their own ways): it must go on saying
	// what it said
	if ticksKnown && !refExhausted && N >= 4 && len(req.Budgets) == 0 && len(req.Carries) == 0 && len(resp.Violations) == 0 {
		cb := call
		cb.Opts.MaxExpr = N/2 + 1
		held := p.Solo(&cb, req.Pool, int64(ref+2)*C)
		for k := 0; k < 2; k++ {
			cn := call
			cn.Opts.MaxExpr = N/3 + uint64(k)
			cn.Plan.ErrPct = 60
			cn.Plan.Faults = nil
			p.After(&cn, int64(ref+2)*C)
		}
		resp.Runs += 3
		resp.stat("budget_errors_held_across_later_calls", 1)
		if now := held.ErrTextNow(); !held.Aborted && !held.Overflow && held.Escaped == "" && now != held.ErrText {
			resp.Violations = append(resp.Violations, Violation{Class: "returned-error-changed-later", Attrs: attrs(N/2+1, "returned-error-changed-later"),
				Msg: fmt.Sprintf("MaxExpressions(%d) returned %q; after two later calls of the same process the error its caller kept reads %q", N/2+1, held.ErrText, now)})
		}
	}
	if req.Full {
		resp.Results = []*CallResult{R}
	}
	resp.Sample = map[string]any{"parser": p.Name, "flags": p.Flags, "input": string(req.Call.Input), "opts": call.Opts, "reference_expr_cnt": N, "reference_exhausted": refExhausted, "budgets": len(budgets), "events": len(R.Events)}
}

func around(h []string, at int) []string {
	if at < 0 {
		return nil
	}
	lo := at - 2
	if lo < 0 {
		lo = 0
	}
	hi := at + 2
	if hi > len(h) {
		hi = len(h)
	}
	return h[lo:hi]
}

func contains(xs []string, x string) bool {
	for _, y := range xs {
		if y == x {
			return true
		}
	}
	return false
}

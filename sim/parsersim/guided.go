package parsersim

import (
	"fmt"
	"sort"
	"strings"

	"verifsim/gen"
	"verifsim/kernel"
)

// The path-following oracle of C05. When the parser runs other blocks than the
// reference model (they disagree about *matching*, which is not C05's
// subject), the model's stores say nothing about the stores the parser's
// blocks should have seen. This search asks instead: is there any reading of
// the parser's own path - any outcome of every terminal, any number of
// iterations of every repetition (a repetition may stop after any successful
// iteration, not only at a failing one), truth values of code predicates and
// state operations as the plan fixes them - that produces exactly the blocks
// the parser ran, in that order? And is there one in which, in addition, every
// block saw the store that the rules of C05 give it along that reading (a
// failed expression, & and ! hand back the store they were given; writes of
// action and predicate blocks are dropped; state blocks persist in order)?
// If the first exists and the second does not, whatever the parser matched,
// some block saw a store it must not see: a C05 violation on the parser's own
// path. If not even the first exists the run stays an unclaimed divergence.

type gres struct {
	ok bool
	st mstore
	i  int
}

type guided struct {
	g          *gen.Grammar
	plan       *kernel.Plan
	real       []kernel.Event
	withStores bool
	withState  bool
	memo       map[string][]gres
	inprog     map[string]bool
	handlers   []mhandler
	steps      int
	aborted    bool
	far        int // the farthest event index matched
	applier    Model
}

func resKey(r gres) string {
	return fmt.Sprintf("%v|%d|%s", r.ok, r.i, r.st.render())
}

type resSet struct {
	seen map[string]bool
	list []gres
}

func (s *resSet) add(r gres) {
	if s.seen == nil {
		s.seen = map[string]bool{}
	}
	k := resKey(r)
	if !s.seen[k] {
		s.seen[k] = true
		s.list = append(s.list, r)
	}
}

func (g *guided) at(i int, kind byte, site int, st mstore) bool {
	if i >= len(g.real) {
		return false
	}
	e := &g.real[i]
	if e.Site != site || e.Kind != kind {
		return false
	}
	if g.withStores && g.withState && e.State != st.render() {
		return false
	}
	if i+1 > g.far {
		g.far = i + 1
	}
	return true
}

func (g *guided) hkey() string {
	var b strings.Builder
	for _, h := range g.handlers {
		fmt.Fprintf(&b, "%d,", h.expr.ID)
	}
	return b.String()
}

func (g *guided) eval(e *gen.Expr, st mstore, i int) []gres {
	g.steps++
	if g.steps > 400000 {
		g.aborted = true
	}
	if g.aborted {
		return nil
	}
	key := fmt.Sprintf("%d|%d|%s|%s", e.ID, i, st.render(), g.hkey())
	if r, ok := g.memo[key]; ok {
		return r
	}
	if g.inprog[key] {
		// the same expression at the same event with the same store: a way round
		// that ran no block changes nothing that a shorter way does not give
		return nil
	}
	g.inprog[key] = true
	r := g.evalNode(e, st, i)
	delete(g.inprog, key)
	g.memo[key] = r
	return r
}

func (g *guided) evalNode(e *gen.Expr, st mstore, i int) []gres {
	var out resSet
	switch e.Kind {
	case gen.Lit, gen.Class, gen.Any:
		out.add(gres{true, st, i})
		out.add(gres{false, st, i})
	case gen.Seq:
		type pos struct {
			st mstore
			i  int
		}
		cur := []pos{{st, i}}
		for _, sub := range e.Subs {
			var next []pos
			seen := map[string]bool{}
			for _, c := range cur {
				for _, r := range g.eval(sub, c.st, c.i) {
					if !r.ok {
						out.add(gres{false, st, r.i})
						continue
					}
					k := fmt.Sprintf("%d|%s", r.i, r.st.render())
					if !seen[k] {
						seen[k] = true
						next = append(next, pos{r.st, r.i})
					}
				}
			}
			cur = next
		}
		for _, c := range cur {
			out.add(gres{true, c.st, c.i})
		}
	case gen.Choice:
		cur := []int{i}
		for _, alt := range e.Subs {
			var next []int
			seen := map[int]bool{}
			for _, ii := range cur {
				for _, r := range g.eval(alt, st, ii) {
					if r.ok {
						out.add(r)
					} else if !seen[r.i] {
						seen[r.i] = true
						next = append(next, r.i)
					}
				}
			}
			cur = next
		}
		for _, ii := range cur {
			out.add(gres{false, st, ii})
		}
	case gen.Star, gen.Plus:
		type pos struct {
			st   mstore
			i    int
			some bool
		}
		visited := map[string]bool{}
		work := []pos{{st, i, false}}
		for len(work) > 0 {
			c := work[len(work)-1]
			work = work[:len(work)-1]
			k := fmt.Sprintf("%d|%v|%s", c.i, c.some, c.st.render())
			if visited[k] {
				continue
			}
			visited[k] = true
			if c.some || e.Kind == gen.Star {
				out.add(gres{true, c.st, c.i}) // the repetition stops here
			}
			for _, r := range g.eval(e.Subs[0], c.st, c.i) {
				if r.ok {
					work = append(work, pos{r.st, r.i, true})
				} else if c.some || e.Kind == gen.Star {
					out.add(gres{true, c.st, r.i})
				} else {
					out.add(gres{false, st, r.i})
				}
			}
		}
	case gen.Opt:
		for _, r := range g.eval(e.Subs[0], st, i) {
			if r.ok {
				out.add(r)
			} else {
				out.add(gres{true, st, r.i})
			}
		}
	case gen.And:
		for _, r := range g.eval(e.Subs[0], st, i) {
			out.add(gres{r.ok, st, r.i})
		}
	case gen.Not:
		for _, r := range g.eval(e.Subs[0], st, i) {
			out.add(gres{!r.ok, st, r.i})
		}
	case gen.Label:
		return g.eval(e.Subs[0], st, i)
	case gen.Action:
		for _, r := range g.eval(e.Subs[0], st, i) {
			if !r.ok {
				out.add(gres{false, st, r.i})
			} else if g.at(r.i, kernel.KAct, e.Site, r.st) {
				out.add(gres{true, r.st, r.i + 1})
			}
		}
	case gen.AndCode, gen.NotCode:
		if g.at(i, kernel.KPred, e.Site, st) {
			t := g.plan.PredTruth(e.Site, g.real[i].N)
			if e.Kind == gen.NotCode {
				t = !t
			}
			out.add(gres{t, st, i + 1})
		}
	case gen.State:
		if g.at(i, kernel.KState, e.Site, st) {
			out.add(gres{true, g.applier.apply(st, g.plan.StateOps(e.Site, g.real[i].N)), i + 1})
		}
	case gen.Ref:
		if r := g.g.RuleByName(e.Name); r != nil {
			return g.eval(r.Expr, st, i)
		}
		out.add(gres{false, st, i})
	case gen.Recover:
		g.handlers = append(g.handlers, mhandler{labels: e.Labels, expr: e.Subs[1]})
		rs := g.eval(e.Subs[0], st, i)
		g.handlers = g.handlers[:len(g.handlers)-1]
		for _, r := range rs {
			if r.ok {
				out.add(r)
			} else {
				out.add(gres{false, st, r.i})
			}
		}
	case gen.Throw:
		cur := []int{i}
		for hi := len(g.handlers) - 1; hi >= 0; hi-- {
			h := g.handlers[hi]
			handles := false
			for _, l := range h.labels {
				if l == e.Name {
					handles = true
				}
			}
			if !handles {
				continue
			}
			var next []int
			seen := map[int]bool{}
			for _, ii := range cur {
				for _, r := range g.eval(h.expr, st, ii) {
					if r.ok {
						out.add(r)
					} else if !seen[r.i] {
						seen[r.i] = true
						next = append(next, r.i)
					}
				}
			}
			cur = next
		}
		for _, ii := range cur {
			out.add(gres{false, st, ii})
		}
	default:
		out.add(gres{false, st, i})
	}
	return out.list
}

// explainRun searches for a reading of the parser's path. It returns whether
// one exists that produces the blocks of the real run in order, whether one
// exists in which every block also saw its store, and the first event for
// which no reading with stores was found. decided is false when the search was
// cut short.
func explainRun(gr *gen.Grammar, c *Call, real []kernel.Event, withState bool) (pathOK, storesOK bool, stuckAt int, decided bool) {
	start := gr.Rules[0]
	if c.Opts.Entrypoint != "" {
		if r := gr.RuleByName(c.Opts.Entrypoint); r != nil {
			start = r
		}
	}
	st := initialStore(c)
	run := func(withStores bool) (bool, int, bool) {
		g := &guided{g: gr, plan: &c.Plan, real: real, withStores: withStores, withState: withState, memo: map[string][]gres{}, inprog: map[string]bool{}}
		rs := g.eval(start.Expr, st, 0)
		if g.aborted {
			return false, 0, false
		}
		sort.Slice(rs, func(a, b int) bool { return rs[a].i > rs[b].i })
		for _, r := range rs {
			if r.i == len(real) {
				return true, g.far, true
			}
		}
		return false, g.far, true
	}
	p, _, d1 := run(false)
	if !d1 {
		return false, false, 0, false
	}
	if !p {
		return false, false, 0, true
	}
	s, far, d2 := run(true)
	if !d2 {
		return true, false, 0, false
	}
	return true, s, far, true
}

// initialStore builds the model store of the InitState options of a call.
func initialStore(c *Call) mstore {
	st := mstore{}
	for _, kv := range c.Opts.InitState {
		switch {
		case kv[1] == "CNIL":
			st = st.with(kv[0], mval{isCNil: true})
		case strings.HasPrefix(kv[1], "C:"):
			st = st.with(kv[0], mval{isC: true, c: strings.Split(kv[1][2:], ",")})
		case strings.HasPrefix(kv[1], "M:"):
			st = st.with(kv[0], mval{isM: true, c: []string{kv[1][2:]}})
		case strings.HasPrefix(kv[1], "V:"):
			st = st.with(kv[0], mval{isV: true, c: strings.Split(kv[1][2:], ",")})
		default:
			st = st.with(kv[0], mval{s: kv[1]})
		}
	}
	return st
}

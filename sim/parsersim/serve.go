package parsersim

import (
	"bufio"
	"encoding/json"
	"fmt"
	"os"
	"runtime/debug"

	"verifsim/kernel"
	"verifsim/simrt"
	"verifsim/simsync"
	"verifsim/simtask"
)

// Request is one case sent by the parent.
type Request struct {
	ID        string             `json:"id"`
	Kind      string             `json:"kind"` // info, run, c16, c11, c05, c18
	Parser    string             `json:"parser"`
	Call      Call               `json:"call"`
	Pool      simsync.PoolConfig `json:"pool"`
	Seed      uint64             `json:"seed"`             // seed of the choice stream of this case
	Replay    []int              `json:"replay,omitempty"` // recorded choices to replay instead
	UseReplay bool               `json:"use_replay,omitempty"`
	StepCap   int64              `json:"step_cap,omitempty"`
	Full      bool               `json:"full,omitempty"` // include complete histories in the response

	// C16
	RefBudget  uint64   `json:"ref_budget,omitempty"`
	Budgets    []uint64 `json:"budgets,omitempty"`     // explicit budgets (replay / minimisation); empty: enumerate
	EnumMax    int      `json:"enum_max,omitempty"`    // enumerate every budget up to this N, sample above
	TwinParser string   `json:"twin_parser,omitempty"` // the same grammar generated without -optimize-parser (a readable clock)
	Carries    []uint64 `json:"carries,omitempty"`     // with Budgets: replay the reused-Stats sub-check for these (budget, carry) pairs

	// C11
	FaultSets [][]kernel.Fault `json:"fault_sets,omitempty"` // explicit fault sets; empty: enumerate singles and sample multis
	MultiSets int              `json:"multi_sets,omitempty"`
	SingleMax int              `json:"single_max,omitempty"` // enumerate all single placements when the history has at most this many events

	// C05
	PoolRuns int `json:"pool_runs,omitempty"` // real runs per case, each with its own pool decisions

	// C18
	Clients [][]Call          `json:"clients,omitempty"`
	Sched   simrt.SchedConfig `json:"sched"`
}

// Violation is one oracle failure found by a campaign.
type Violation struct {
	Class  string            `json:"class"`
	Msg    string            `json:"msg"`
	Attrs  map[string]string `json:"attrs,omitempty"`
	Detail map[string]any    `json:"detail,omitempty"`
	// Narrow is what the parent puts into the request to reproduce only this violation.
	Budgets   []uint64         `json:"budgets,omitempty"`
	Carries   []uint64         `json:"carries,omitempty"`
	FaultSets [][]kernel.Fault `json:"fault_sets,omitempty"`
	PoolRun   int              `json:"pool_run,omitempty"`
	Choices   []int            `json:"choices,omitempty"` // the simulator decisions of the violating run
}

// Response is the answer to a Request.
type Response struct {
	ID         string         `json:"id"`
	Error      string         `json:"error,omitempty"` // harness-level problem
	Violations []Violation    `json:"violations,omitempty"`
	Stats      map[string]int `json:"stats,omitempty"`
	Runs       int            `json:"runs"`
	Choices    []int          `json:"choices,omitempty"`
	Results    []*CallResult  `json:"results,omitempty"`
	Sample     any            `json:"sample,omitempty"`
	Hashes     []string       `json:"hashes,omitempty"` // per-run history hashes (determinism self-test)
	Notes      []string       `json:"notes,omitempty"`
	Digests    [][]string     `json:"digests,omitempty"` // C18: per client, per call, hash of the result digest
}

func (r *Response) stat(k string, n int) {
	if r.Stats == nil {
		r.Stats = map[string]int{}
	}
	r.Stats[k] += n
}

func (r *Response) statMax(k string, n int) {
	if r.Stats == nil {
		r.Stats = map[string]int{}
	}
	if n > r.Stats[k] {
		r.Stats[k] = n
	}
}

func init() {
	// channel operations of instrumented parsers that cannot proceed hand over
	// to another client of the simulated scheduler
	simtask.ExternalYield = func() {
		simrt.Charge(25)
		simrt.SwitchAway()
	}
}

// Handle executes one request.
func Handle(req *Request) (resp *Response) {
	resp = &Response{ID: req.ID}
	defer func() {
		if e := recover(); e != nil {
			resp.Error = fmt.Sprintf("driver panic: %v\n%s", e, debug.Stack())
		}
	}()
	if req.Kind == "info" {
		resp.Sample = map[string]any{"parsers": Names(), "race": simrt.RaceEnabled}
		return
	}
	p := Lookup(req.Parser)
	if p == nil {
		resp.Error = "unknown parser " + req.Parser
		return
	}
	if req.UseReplay {
		simrt.SetReplay(req.Replay)
	} else {
		simrt.SetSeed(req.Seed)
	}
	if req.StepCap == 0 {
		req.StepCap = 2_000_000
	}
	switch req.Kind {
	case "run":
		r := p.Solo(&req.Call, req.Pool, req.StepCap)
		resp.Results = []*CallResult{r}
		resp.Runs = 1
	case "c16":
		campaignC16(p, req, resp)
	case "c11":
		campaignC11(p, req, resp)
	case "c05":
		campaignC05(p, req, resp)
	case "c18":
		campaignC18(p, req, resp)
	case "c18solo":
		campaignC18Solo(p, req, resp)
	default:
		resp.Error = "unknown kind " + req.Kind
	}
	resp.Choices = simrt.Choices()
	if !req.Full && len(resp.Choices) > 4096 {
		resp.Choices = resp.Choices[:4096]
	}
	return
}

// Serve reads requests from stdin and writes responses to stdout.
func Serve() {
	in := bufio.NewReaderSize(os.Stdin, 1<<20)
	out := bufio.NewWriterSize(os.Stdout, 1<<20)
	dec := json.NewDecoder(in)
	enc := json.NewEncoder(out)
	for {
		var req Request
		if err := dec.Decode(&req); err != nil {
			return
		}
		// the marker lets the parent attribute a crash or a race report to a case
		fmt.Fprintf(os.Stderr, "run-start %s\n", req.ID)
		resp := Handle(&req)
		if err := enc.Encode(resp); err != nil {
			os.Exit(3)
		}
		out.Flush()
	}
}

package parsersim

import "verifsim/simsync"

func simsyncStats() map[string]int {
	s := simsync.Stats()
	return map[string]int{"gets": s.Gets, "puts": s.Puts, "news": s.News, "recycled": s.Recycled, "random_pick": s.RandomPick, "fifo_pick": s.FIFOPick,
		"dropped": s.Dropped, "foreign_taken": s.ForeignTaken, "foreign_returned": s.ForeignReturned, "double_put": s.DoublePut, "put_non_empty": s.PutNonEmpty}
}

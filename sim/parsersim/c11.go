package parsersim

import (
	"fmt"
	"regexp"
	"strings"
	"unicode/utf8"

	"verifsim/gen"
	"verifsim/kernel"
	"verifsim/simrt"
)

func eventCore(e *kernel.Event) string {
	return fmt.Sprintf("%c%d#%d pos=%d:%d(%d) text=%q labels=%s state=%s g=%d", e.Kind, e.Site, e.N, e.Line, e.Col, e.Off, e.Text, e.Labels, e.State, e.GCnt)
}

func coreHistory(r *CallResult) []string {
	out := make([]string, len(r.Events))
	for i := range r.Events {
		out[i] = eventCore(&r.Events[i])
	}
	return out
}

func ruleOfSite(g *gen.Grammar, site int) *gen.Rule {
	if site < 1 || site > len(g.Sites) {
		return nil
	}
	return g.RuleByName(g.Sites[site-1].Rule)
}

// rulePart returns the accepted spellings of "rule <name>" for a site.
func rulePart(g *gen.Grammar, site int) []string {
	r := ruleOfSite(g, site)
	if r == nil {
		return nil
	}
	if site >= 1 && site <= len(g.Sites) && g.Sites[site-1].InRecovery {
		// a recovery expression runs in place of the throw, i.e. while the rule
		// that threw is being parsed; "the rule in which it arose" can be read
		// either way, so any rule of the grammar is accepted here
		var all []string
		for _, rr := range g.Rules {
			if rr.Display != "" {
				all = append(all, "rule "+rr.Display, fmt.Sprintf("rule %q", rr.Display))
			} else {
				all = append(all, "rule "+rr.Name)
			}
		}
		return all
	}
	if r.Display != "" {
		return []string{"rule " + r.Display, fmt.Sprintf("rule %q", r.Display)}
	}
	return []string{"rule " + r.Name}
}

// prefixRegexp matches "file:line:col (offset): rule name"; with an empty file
// name the prefix starts at the line number.
func prefixRegexp(filename string) *regexp.Regexp {
	f := ""
	if filename != "" {
		f = regexp.QuoteMeta(filename) + ":"
	}
	return regexp.MustCompile(`^` + f + `(\d+):(\d+) \((\d+)\): (rule .*)$`)
}

func isPanicKind(k string) bool { return strings.HasPrefix(k, "panic") }

// PosOracle tells, for a predicate or state event of a history, the input
// offset at which the block ran (from the reference model); ok=false when unknown.
type PosOracle func(seq int) (off int, ok bool)

// checkC11 judges one faulted run against its fault-free twin. faults is the
// injected set; R0 the fault-free run with the same options.
// lineColOf computes line and column of a byte offset from the input alone:
// lines are counted by line feeds, columns in characters from 1. The position
// *of* a line feed is left undecided (the runtime calls it column 0 of the
// next line, doc.go speaks of 1-based columns).
func lineColOf(input []byte, off int) (line, col int, undecided bool) {
	if off < 0 || off > len(input) || (off < len(input) && input[off] == '\n') {
		return 0, 0, true
	}
	line = 1
	start := 0
	for i := 0; i < off; i++ {
		if input[i] == '\n' {
			line++
			start = i + 1
		}
	}
	return line, utf8.RuneCount(input[start:off]) + 1, false
}

func checkC11(p *Parser, R0, r *CallResult, faults []kernel.Fault, recoverOn bool, pos PosOracle, lineCol map[int][2]int, kept map[int]bool, filename string, input []byte) (string, string, map[string]any) {
	return checkC11cut(p, R0, r, faults, recoverOn, pos, lineCol, kept, filename, input, false)
}

// checkC11cut is checkC11 for a run that may have been cut short by an
// exhausted MaxExpressions budget (cut=true): then the history is a prefix of
// the twin's, the value is nil, the final element of the list is the budget
// error (a parser error with the usual prefix), and everything before it is
// judged as in an uncut run: the errors code blocks returned before the cut
// must all be there.
func checkC11cut(p *Parser, R0, r *CallResult, faults []kernel.Fault, recoverOn bool, pos PosOracle, lineCol map[int][2]int, kept map[int]bool, filename string, input []byte, cut bool) (string, string, map[string]any) {
	g := p.Grammar()
	prefixRe := prefixRegexp(filename)
	if r.Aborted || r.Overflow {
		return "", "", nil
	}
	// which faults fired, in event order
	type fired struct {
		ev   *kernel.Event
		kind string
		inj  int
	}
	var fs []fired
	firstPanic := -1
	for i := range r.Injected {
		in := r.Injected[i]
		if in.Seq >= len(r.Events) {
			continue
		}
		if isPanicKind(in.Kind) && firstPanic < 0 {
			firstPanic = in.Seq
		}
		if kept != nil && !isPanicKind(in.Kind) && !kept[in.Seq] {
			// recorded inside a growth attempt of a left-recursive rule that was
			// abandoned: such errors are not retained
			continue
		}
		fs = append(fs, fired{&r.Events[in.Seq], in.Kind, i})
	}
	// (a) nothing else changes
	h0, h := coreHistory(R0), coreHistory(r)
	want := h0
	if firstPanic >= 0 && firstPanic+1 <= len(h0) {
		want = h0[:firstPanic+1]
	}
	if cut && len(h) <= len(want) {
		want = want[:len(h)]
	}
	if ok, at := sameStrings(h, want); !ok {
		return "history-changed", fmt.Sprintf("returning an error from a code block changed what ran afterwards (event %d)", at), map[string]any{"got": around(h, at), "want": around(want, at)}
	}
	// expected messages
	type exp struct {
		msgTail string   // ": E3.1"
		rule    []string // accepted "rule X" parts
		ev      *kernel.Event
		inj     int
		panic   bool
	}
	var exps []exp
	for _, f := range fs {
		if isPanicKind(f.kind) {
			if f.ev.Seq == firstPanic {
				exps = append(exps, exp{": " + r.Injected[f.inj].Msg, rulePart(g, f.ev.Site), f.ev, f.inj, true})
			}
			break
		}
		exps = append(exps, exp{": " + r.Injected[f.inj].Msg, rulePart(g, f.ev.Site), f.ev, f.inj, false})
	}
	if firstPanic >= 0 && !recoverOn {
		// the panic must reach the caller unchanged
		pv := r.Injected[exps[len(exps)-1].inj]
		wantEsc := pv.Msg
		switch pv.Kind {
		case "panic-err", "panic-runtime":
			wantEsc = "err(" + pv.Msg + ")"
		case "panic-str":
			wantEsc = "s" + fmt.Sprintf("%q", pv.Msg)
		case "panic-int":
			wantEsc = pv.Msg
		case "panic-stringer":
			wantEsc = "<kernel.GoodStringer>"
		case "panic-badstringer":
			wantEsc = "<*kernel.BadStringer>"
		default:
			wantEsc = "<kernel.PanicStruct>"
		}
		if r.Escaped != wantEsc {
			return "panic-not-propagated", fmt.Sprintf("with Recover(false) the caller must see the panic value %s, got escaped=%q err=%q", wantEsc, r.Escaped, errMsgsShort(r)), nil
		}
		return "", "", nil
	}
	if r.Escaped != "" {
		return "panic-escaped", "a panic reached the caller of Parse although Recover is enabled: " + r.Escaped, nil
	}
	if cut {
		if r.ErrNil || !r.ErrIsList || len(r.Errs) == 0 {
			return "error-type", "after an exhausted budget the returned error is not the documented error list type: " + r.ErrText, nil
		}
		last := r.Errs[len(r.Errs)-1]
		if last.InnerMsg != maxExprMsg || !last.IsParserError || !strings.HasSuffix(last.Msg, ": "+maxExprMsg) || prefixRe.FindStringSubmatch(strings.TrimSuffix(last.Msg, ": "+maxExprMsg)) == nil {
			return "error-list", fmt.Sprintf("the final element after an exhausted budget is not the budget error as a parser error with the file:line:col (offset): rule prefix: %q", errMsgsShort(r)), nil
		}
		if !r.ValueNil {
			return "value-after-exhaustion", "a value was returned together with the budget error: " + r.Value, nil
		}
		// judge the rest as an uncut run that returned what the twin returned
		rr := *r
		rr.Errs = r.Errs[:len(r.Errs)-1]
		rr.Value, rr.ValueNil = R0.Value, R0.ValueNil
		rr.ErrNil = len(rr.Errs) == 0
		r = &rr
		if len(exps) == 0 {
			if len(rr.Errs) != 0 {
				return "error-list", fmt.Sprintf("no code block returned an error before the budget ran out, but the list holds more than the budget error: %q", errMsgsShort(r)), nil
			}
			return "", "", nil
		}
	}
	if len(exps) == 0 && kept != nil && len(r.Injected) > 0 {
		// every injected error was made in an abandoned growth attempt
		if r.Value != R0.Value {
			return "value-changed", fmt.Sprintf("errors returned by code blocks changed the value: %s vs %s", r.Value, R0.Value), nil
		}
		if strings.Join(errMsgs(r), "\n") != strings.Join(errMsgs(R0), "\n") {
			return "error-list", fmt.Sprintf("errors made only in abandoned growth attempts must leave the result as in the fault-free run: %q vs %q", errMsgsShort(r), errMsgsShort(R0)), nil
		}
		return "", "", nil
	}
	if len(exps) == 0 {
		// no fault fired: identical to the twin
		if r.Value != R0.Value || strings.Join(errMsgs(r), "\n") != strings.Join(errMsgs(R0), "\n") {
			return "twin-differs", "a run in which no fault fired differs from the fault-free run", nil
		}
		return "", "", nil
	}
	if r.ErrNil {
		return "error-lost", fmt.Sprintf("%d code blocks returned errors or panicked but Parse returned a nil error", len(exps)), map[string]any{"value": r.Value}
	}
	if !r.ErrIsList {
		return "error-type", "the returned error is not the documented error list type: " + r.ErrText, nil
	}
	// value
	if firstPanic >= 0 {
		if !r.ValueNil {
			return "value-after-panic", "a recovered panic must yield a nil value, got " + r.Value, nil
		}
	} else if r.Value != R0.Value {
		return "value-changed", fmt.Sprintf("errors returned by code blocks changed the value: %s vs %s", r.Value, R0.Value), nil
	}
	// match the error list element by element against the deduplicated expectation
	full := func(e exp, el *ErrInfo) (bool, string) {
		if !strings.HasSuffix(el.Msg, e.msgTail) {
			return false, "message"
		}
		pre := strings.TrimSuffix(el.Msg, e.msgTail)
		m := prefixRe.FindStringSubmatch(pre)
		if m == nil {
			return false, "prefix shape (file:line:col (offset): rule name)"
		}
		okRule := false
		for _, rp := range e.rule {
			if m[4] == rp {
				okRule = true
			}
		}
		if !okRule {
			return false, fmt.Sprintf("rule part %q, expected one of %q", m[4], e.rule)
		}
		if e.panic {
			return true, ""
		}
		if e.ev.Kind == kernel.KAct {
			wantPos := fmt.Sprintf("%d:%d (%d)", e.ev.Line, e.ev.Col, e.ev.Off)
			gotPos := fmt.Sprintf("%s:%s (%s)", m[1], m[2], m[3])
			if wantPos != gotPos {
				return false, fmt.Sprintf("position %s, but the action matched at %s", gotPos, wantPos)
			}
			// and the block's own view of its position is checked against the input
			if l, c, und := lineColOf(input, e.ev.Off); !und && (m[1] != fmt.Sprint(l) || m[2] != fmt.Sprint(c)) {
				return false, fmt.Sprintf("line:col %s:%s, but offset %d of the input is line %d, character %d", m[1], m[2], e.ev.Off, l, c)
			}
		} else if pos != nil {
			if off, ok := pos(e.ev.Seq); ok {
				if m[3] != fmt.Sprint(off) {
					return false, fmt.Sprintf("offset %s, but the block ran at offset %d", m[3], off)
				}
				if l, c, und := lineColOf(input, off); !und && (m[1] != fmt.Sprint(l) || m[2] != fmt.Sprint(c)) {
					return false, fmt.Sprintf("line:col %s:%s, but offset %d of the input is line %d, character %d", m[1], m[2], off, l, c)
				}
				if lc, ok := lineCol[off]; ok {
					if m[1] != fmt.Sprint(lc[0]) || m[2] != fmt.Sprint(lc[1]) {
						return false, fmt.Sprintf("line:col %s:%s, but offset %d is %d:%d", m[1], m[2], off, lc[0], lc[1])
					}
				}
			}
		}
		return true, ""
	}
	// dedupe expectation by the message the implementation must produce; since
	// positions of predicate/state errors are only partly known to us, dedupe is
	// decided on (tail, rule, event offset-as-reported) by walking the actual list.
	ai := 0
	seen := map[string]bool{}
	isDup := func(e exp) bool {
		// the message e must produce (as far as we know it) was already reported
		for m := range seen {
			if strings.HasSuffix(m, e.msgTail) {
				if ok, _ := full(e, &ErrInfo{Msg: m}); ok {
					return true
				}
			}
		}
		return false
	}
	for xi, e := range exps {
		if ai < len(r.Errs) {
			el := &r.Errs[ai]
			ok, _ := full(e, el)
			identity := el.InjectedIdx == e.inj
			if e.panic && r.Injected[e.inj].Kind != "panic-err" {
				identity = true // no error value to be identical to
			}
			if ok && !seen[el.Msg] && !identity && !e.panic && isDup(e) {
				// the head belongs to a later block; this one repeated an earlier message
				continue
			}
			if ok && !seen[el.Msg] {
				if !el.IsParserError {
					return "error-type", "an element of the error list is not a parser error: " + el.Msg, nil
				}
				if e.panic {
					pv := r.Injected[e.inj]
					if !identity {
						return "inner-identity", "the recovered panic's error value is not the Inner of the final error: " + el.Msg, nil
					}
					if el.InnerMsg != pv.Msg {
						return "panic-message", fmt.Sprintf("the final error's inner message %q is not the panic value %q", el.InnerMsg, pv.Msg), nil
					}
				} else if !identity {
					return "inner-identity", "Inner is not the error value the code block returned: " + el.Msg, nil
				}
				seen[el.Msg] = true
				ai++
				continue
			}
		}
		// not at the head of the remaining list: legitimate only as a duplicate of an earlier message
		if isDup(e) {
			continue
		}
		why := "missing"
		if ai < len(r.Errs) {
			_, why = full(e, &r.Errs[ai])
		}
		return "error-list", fmt.Sprintf("expected error %d of %d (%s from %c%d#%d) is not at position %d of the returned list: %s; returned: %q", xi+1, len(exps), e.msgTail[2:], e.ev.Kind, e.ev.Site, e.ev.N, ai, why, errMsgsShort(r)), nil
	}
	if ai != len(r.Errs) {
		return "error-list", fmt.Sprintf("the returned list has %d elements beyond the %d code-block errors: %q", len(r.Errs)-ai, ai, errMsgsShort(r)), nil
	}
	if firstPanic >= 0 {
		lastMsg := r.Errs[len(r.Errs)-1].Msg
		if !strings.HasSuffix(lastMsg, exps[len(exps)-1].msgTail) {
			return "panic-not-last", "the recovered panic is not the final error: " + lastMsg, nil
		}
	}
	return "", "", nil
}

var faultKinds = []string{"err", "panic-err", "panic-str", "panic-int", "panic-struct", "panic-stringer", "panic-badstringer", "panic-runtime", "errnested", "errdup", "errlate", "errjoin"}

// campaignC11 records the fault-free execution and then injects faults at the
// code-block invocations of that execution.
func campaignC11(p *Parser, req *Request, resp *Response) {
	call := req.Call
	call.Opts.Stats = p.Has["Statistics"] && call.Opts.Stats
	call.Plan.Faults = nil
	recoverOn := call.Opts.Recover == nil || *call.Opts.Recover
	R0 := p.Solo(&call, req.Pool, req.StepCap)
	resp.Runs++
	if R0.Aborted || R0.Overflow {
		resp.stat("twin_aborted", 1)
		return
	}
	if R0.Escaped != "" {
		resp.Violations = append(resp.Violations, Violation{Class: "twin-panicked", Msg: "the fault-free run panicked: " + R0.Escaped, Attrs: map[string]string{"class": "twin-panicked"}})
		return
	}
	resp.statMax("max_events_in_one_parse", len(R0.Events))
	// positions from the reference model, where it applies
	var pos PosOracle
	lineCol := map[int][2]int{}
	for i := range R0.Events {
		e := &R0.Events[i]
		if e.Kind == kernel.KAct {
			lineCol[e.Off] = [2]int{e.Line, e.Col}
		}
	}
	if m := modelPositions(p, &call, R0); m != nil {
		pos = m
		resp.stat("model_positions_available", 1)
	}
	leftRec := contains(p.Flags, "-support-left-recursion") && p.Grammar().LeftRecursive()
	if leftRec {
		if pos == nil {
			// which errors survive seed growing is only known through the model
			resp.stat("left_recursive_case_without_model", 1)
			return
		}
		resp.stat("left_recursive_cases", 1)
	}
	var sets [][]kernel.Fault
	if len(req.FaultSets) > 0 {
		sets = req.FaultSets
	} else if len(req.Budgets) > 0 {
		// replay of a budget-cut violation: only that sub-check runs
	} else {
		singleMax := req.SingleMax
		if singleMax == 0 {
			singleMax = 60
		}
		evs := R0.Events
		if len(evs) <= singleMax {
			for i := range evs {
				for k, kind := range faultKinds {
					// every event gets err and panic-err; the other payloads rotate
					if kind == "errdup" || (k >= 2 && (i+k)%3 != 0) {
						continue
					}
					sets = append(sets, []kernel.Fault{{Site: evs[i].Site, N: evs[i].N, Kind: kind}})
				}
			}
			resp.stat("cases_singles_enumerated", 1)
		} else {
			for j := 0; j < 2*singleMax; j++ {
				e := evs[simrt.Choose(len(evs))]
				sets = append(sets, []kernel.Fault{{Site: e.Site, N: e.N, Kind: faultKinds[simrt.Choose(9)]}})
			}
		}
		// every site that ran more than once at one offset gets one set that makes
		// all those invocations return the same message (de-duplication, and
		// errors first seen on an abandoned path recurring on the kept one)
		bySiteOff := map[[2]int][]int{}
		var order [][2]int
		for i := range evs {
			k := [2]int{evs[i].Site, evs[i].Off}
			if len(bySiteOff[k]) == 0 {
				order = append(order, k)
			}
			bySiteOff[k] = append(bySiteOff[k], i)
		}
		nsame := 0
		for _, k := range order {
			idx := bySiteOff[k]
			if len(idx) < 2 || nsame >= 8 {
				continue
			}
			nsame++
			var set []kernel.Fault
			for _, i := range idx {
				set = append(set, kernel.Fault{Site: evs[i].Site, N: evs[i].N, Kind: "errdup"})
			}
			sets = append(sets, set)
			resp.stat("same_site_same_offset_sets", 1)
			// and without the first invocation: the first recorded occurrence may then
			// lie on a path that is abandoned later
			if len(set) > 1 {
				sets = append(sets, append([]kernel.Fault(nil), set[1:]...))
			}
		}
		if len(evs) > 0 {
			for j := 0; j < req.MultiSets; j++ {
				n := 2 + simrt.Choose(5)
				var set []kernel.Fault
				for k := 0; k < n; k++ {
					e := evs[simrt.Choose(len(evs))]
					kind := "err"
					switch c := simrt.Choose(10); {
					case c < 4:
						kind = "errdup"
					case c == 8:
						kind = "errnested"
					case c == 7:
						kind = "errlate"
					case c == 6:
						kind = "errjoin"
					case c == 9:
						kind = faultKinds[1+simrt.Choose(7)]
					}
					set = append(set, kernel.Fault{Site: e.Site, N: e.N, Kind: kind})
				}
				sets = append(sets, set)
			}
		}
	}
	for _, set := range sets {
		c := call
		c.Plan.Faults = set
		r := p.Solo(&c, req.Pool, req.StepCap)
		resp.Runs++
		for _, in := range r.Injected {
			resp.stat("fired_"+in.Kind, 1)
		}
		if len(r.Injected) >= 2 {
			resp.stat("runs_with_2plus_faults_fired", 1)
		}
		resp.statMax("max_errors_injected_in_one_parse", len(r.Injected))
		var kept map[int]bool
		if leftRec {
			mc := c
			mm := RunModel(p.Grammar(), &mc, p.withStateStore())
			if mm.Aborted != "" {
				continue
			}
			kept = map[int]bool{}
			for _, seq := range mm.errLog {
				kept[seq] = true
			}
			if len(mm.errLog) < len(r.Injected) {
				resp.stat("errors_dropped_with_abandoned_growth_attempt", len(r.Injected)-len(mm.errLog))
			}
		}
		class, msg, detail := checkC11(p, R0, r, set, recoverOn, pos, lineCol, kept, call.Opts.FileName(), call.Input)
		if class != "" {
			resp.Violations = append(resp.Violations, Violation{Class: class, Msg: msg, Detail: detail, FaultSets: [][]kernel.Fault{set},
				Attrs: map[string]string{"class": class, "recover": fmt.Sprint(recoverOn), "memoize": fmt.Sprint(call.Opts.Memoize), "optimized": fmt.Sprint(!p.Has["Memoize"])}})
			if len(resp.Violations) >= 5 {
				break
			}
		} else {
			dd := 0
			msgs := map[string]int{}
			for _, in := range r.Injected {
				msgs[in.Msg]++
			}
			for _, n := range msgs {
				if n > 1 {
					dd++
				}
			}
			if dd > 0 && len(r.Errs) < len(r.Injected) {
				resp.stat("dedupe_exercised", 1)
			}
			if len(r.Errs) > 0 && !r.ValueNil {
				resp.stat("value_and_errors_together", 1)
			}
		}
	}
	// a faulted call right after another call of the same process, the pools
	// and whatever else the package keeps as that call left them; the earlier
	// call had a list of default options in front of its own. The faulted call
	// must return what it returns alone.
	if len(resp.Violations) == 0 && len(sets) > 0 {
		var picks [][]kernel.Fault
		for _, set := range sets {
			if len(picks) < 2 && len(set) > 0 && isPanicKind(set[len(set)-1].Kind) {
				picks = append(picks, set)
			}
		}
		if len(picks) < 2 {
			picks = append(picks, sets[len(sets)/2])
		}
		for _, set := range picks {
			c := call
			c.Plan.Faults = set
			alone := p.Solo(&c, req.Pool, req.StepCap)
			pre := call
			pre.Opts.Overridden = true
			pre.Opts.Recover = nil
			if len(set)%2 == 0 {
				pre.Plan.Faults = set
			}
			first := p.Solo(&pre, req.Pool, req.StepCap)
			after := p.After(&c, req.StepCap)
			resp.Runs += 3
			if alone.Aborted || alone.Overflow || first.Aborted || first.Overflow || after.Aborted || after.Overflow {
				continue
			}
			resp.stat("faulted_runs_right_after_another_call", 1)
			bad := ""
			switch {
			case after.Escaped != alone.Escaped:
				bad = fmt.Sprintf("a panic reached the caller: %q instead of %q", after.Escaped, alone.Escaped)
			case after.Value != alone.Value:
				bad = "returned " + after.Value + " instead of " + alone.Value
			default:
				if ok, _ := sameStrings(errMsgs(after), errMsgs(alone)); !ok {
					bad = fmt.Sprintf("reported %q instead of %q", errMsgsShort(after), errMsgsShort(alone))
				} else if ok, at := sameStrings(historyKeys(after), historyKeys(alone)); !ok {
					bad = fmt.Sprintf("ran other blocks (history differs at event %d)", at)
				}
			}
			if bad != "" {
				resp.Violations = append(resp.Violations, Violation{Class: "differs-after-another-call", Msg: "the faulted call made right after another call of the same process (whose option list began with defaults that its own options replaced) " + bad, FaultSets: [][]kernel.Fault{set},
					Attrs: map[string]string{"class": "differs-after-another-call", "recover": fmt.Sprint(recoverOn), "memoize": fmt.Sprint(call.Opts.Memoize), "optimized": fmt.Sprint(!p.Has["Memoize"])}})
				break
			}
		}
	}
	// cancellation as one more fault: the same call with a share of the blocks
	// returning errors and a MaxExpressions budget that runs out somewhere in
	// the middle. What was recorded before the cut must all be reported, as a
	// typed list, with the budget error last (not under left recursion, where
	// the model that says which errors survive knows no budgets; not with
	// Recover(false), known finding F4 of C16).
	if call.Opts.Stats && recoverOn && !leftRec && R0.ExprCnt > 2 && len(req.FaultSets) == 0 && len(resp.Violations) == 0 && len(R0.Errs) == 0 {
		type cutCase struct {
			budget uint64
			pct    int
		}
		var cuts []cutCase
		if len(req.Budgets) > 0 {
			for i, b := range req.Budgets {
				if i < len(req.Carries) {
					cuts = append(cuts, cutCase{b, int(req.Carries[i])})
				}
			}
		} else {
			for k := 0; k < 3; k++ {
				// two of three in the later half of the run, where more has been recorded
				b := 1 + uint64(simrt.Choose(int(R0.ExprCnt-1)))
				if k > 0 && b < R0.ExprCnt/2 {
					b += R0.ExprCnt / 2
				}
				cuts = append(cuts, cutCase{b, []int{100, 50, 20}[k]})
			}
		}
		for _, cc := range cuts {
			c := call
			c.Plan.Faults = nil
			c.Plan.ErrPct = cc.pct
			c.Opts.MaxExpr = cc.budget
			r := p.Solo(&c, req.Pool, req.StepCap)
			resp.Runs++
			if r.Aborted || r.Overflow {
				continue
			}
			cut := false
			for _, e := range r.Errs {
				if e.InnerMsg == maxExprMsg {
					cut = true
				}
			}
			if !cut && !r.ErrNil && !r.ErrIsList && strings.Contains(r.ErrText, maxExprMsg) {
				cut = true // reported, but not as the documented list: checkC11cut says so
			}
			if !cut {
				continue // the budget sufficed after all (errors do not change what runs)
			}
			resp.stat("budget_cut_runs", 1)
			if len(r.Injected) > 0 {
				resp.stat("budget_cut_runs_with_errors_before_the_cut", 1)
			}
			class, msg, detail := checkC11cut(p, R0, r, nil, recoverOn, pos, lineCol, nil, call.Opts.FileName(), call.Input, true)
			if class != "" {
				if detail == nil {
					detail = map[string]any{}
				}
				detail["budget"] = c.Opts.MaxExpr
				detail["err_pct"] = c.Plan.ErrPct
				resp.Violations = append(resp.Violations, Violation{Class: class, Msg: fmt.Sprintf("MaxExpressions(%d), %d%% of the blocks returning errors: %s", c.Opts.MaxExpr, c.Plan.ErrPct, msg), Detail: detail, Budgets: []uint64{c.Opts.MaxExpr}, Carries: []uint64{uint64(c.Plan.ErrPct)},
					Attrs: map[string]string{"class": class, "recover": fmt.Sprint(recoverOn), "memoize": fmt.Sprint(call.Opts.Memoize), "optimized": fmt.Sprint(!p.Has["Memoize"]), "budget_cut": "true"}})
				break
			}
		}
	}
	resp.Sample = map[string]any{"parser": p.Name, "flags": p.Flags, "input": string(call.Input), "opts": call.Opts, "events": len(R0.Events), "fault_sets": len(sets), "twin_errors": errMsgs(R0)}
	if req.Full {
		resp.Results = []*CallResult{R0}
	}
}

// Package parsersim is the child-process side of the parser world: the
// registry of instrumented generated parsers linked into the driver, the
// primitive that executes one simulated Parse call, and the per-property
// campaigns (C05, C11, C16, C18) with their oracles.
package parsersim

import (
	"encoding/json"
	"fmt"
	"reflect"
	"sort"

	"verifsim/gen"
	"verifsim/kernel"
	"verifsim/simmap"
	"verifsim/simrt"
	"verifsim/simsync"
)

// Opts are the runtime options of one Parse call.
type Opts struct {
	Memoize          bool   `json:"memoize,omitempty"`
	Debug            bool   `json:"debug,omitempty"`
	Stats            bool   `json:"stats,omitempty"`
	Recover          *bool  `json:"recover,omitempty"` // nil: parser default
	AllowInvalidUTF8 bool   `json:"allow_invalid_utf8,omitempty"`
	Entrypoint       string `json:"entrypoint,omitempty"`
	MaxExpr          uint64 `json:"max_expr,omitempty"`
	// Shuffle, when non-zero, permutes the option list handed to Parse (options
	// are independent of each other; their order must not matter).
	Shuffle uint64 `json:"shuffle,omitempty"`
	// EntryEmpty passes Entrypoint("") (the documented way to say "the first rule").
	EntryEmpty bool `json:"entry_empty,omitempty"`
	// SharedOptions: the Option values of this call are taken from a set built
	// once before the clients start, so that several clients apply the very
	// same Option values (as a program with package-level options does).
	SharedOptions bool `json:"shared_options,omitempty"`
	// UseFile: the input is written to a file below the working directory and
	// parsed with ParseFile (the name then has a directory part).
	UseFile bool `json:"use_file,omitempty"`
	// Filename given to Parse; "" stands for "f.txt", "<empty>" for the empty name.
	Filename  string      `json:"filename,omitempty"`
	InitState [][2]string `json:"init_state,omitempty"`
	UseReader bool        `json:"use_reader,omitempty"`
	// StatsCarry is the ExprCnt already present in the Stats value handed to the
	// Statistics option (a Stats value reused from an earlier parse).
	StatsCarry uint64 `json:"stats_carry,omitempty"`
	// SpareCap: the options are handed over in a slice with spare capacity, as a
	// program does that keeps several option lists in one array
	// (`common := make([]Option, 0, 8)`, `strict := append(common, MaxExpressions(n))`);
	// the library has no business writing there.
	SpareCap bool `json:"spare_cap,omitempty"`
	// FilePrepared (with UseFile): the file was written once before the clients
	// started (several goroutines parse the same file with their own options);
	// the call itself only reads it.
	FilePrepared bool `json:"file_prepared,omitempty"`
	// NoGlobalOpt: the call is made without any GlobalStore option (most programs
	// never use it); the simulation context then travels with the running
	// client instead of in the global store.
	NoGlobalOpt bool `json:"no_global_opt,omitempty"`
	// ReuseOptions: Option values are created once per process and value and
	// applied to many parsers (an Option "returns the previous setting as an
	// Option": the values are meant to be kept and re-applied).
	ReuseOptions bool `json:"reuse_options,omitempty"`
	// Overridden: the option list starts with settings that later options of the
	// same list replace (a program that appends its own options to a list of
	// defaults): Recover(!x) ... Recover(x). The last one counts.
	Overridden      bool   `json:"overridden,omitempty"`
	OverriddenEntry string `json:"overridden_entry,omitempty"`
}

// ErrElem is one element of the error list as the glue sees it.
type ErrElem struct {
	Msg           string
	IsParserError bool
	Inner         error
}

// Parser is one instrumented generated parser.
type Parser struct {
	Name        string
	GrammarJSON string
	GrammarText string
	Flags       []string
	Has         map[string]bool                 // option constructors present in this template variant
	Prebuild    func(keys []string)             // builds the shared Option values (driver goroutine, before clients start)
	PrepFile    func(name string, input []byte) // writes the file that ParseFile calls with FilePrepared read
	Parse       func(filename string, input []byte, o *Opts, ctx *kernel.Ctx) (val any, err error, esc any, cnt uint64)
	Inspect     func(err error) (bool, []ErrElem)
	G           func() any

	grammar *gen.Grammar
}

var registry = map[string]*Parser{}

// Register is called by the glue of each generated package.
func Register(p *Parser) { registry[p.Name] = p }

// Lookup finds a parser.
func Lookup(name string) *Parser { return registry[name] }

// Names lists the registered parsers.
func Names() []string {
	var n []string
	for k := range registry {
		n = append(n, k)
	}
	sort.Strings(n)
	return n
}

// Grammar decodes the generator's AST of the parser's grammar.
func (p *Parser) Grammar() *gen.Grammar {
	if p.grammar == nil {
		var g gen.Grammar
		if err := json.Unmarshal([]byte(p.GrammarJSON), &g); err != nil {
			panic("parsersim: bad grammar JSON for " + p.Name + ": " + err.Error())
		}
		p.grammar = &g
	}
	return p.grammar
}

// ShuffleOpts permutes n options deterministically from seed.
func ShuffleOpts(n int, seed uint64, swap func(i, j int)) {
	for i := n - 1; i > 0; i-- {
		seed = seed*6364136223846793005 + 1442695040888963407
		swap(i, int((seed>>33)%uint64(i+1)))
	}
}

// FileName is the file name argument of the Parse call.
func (o *Opts) FileName() string {
	if o.UseFile {
		return "pf dir/sub/in put.txt"
	}
	switch o.Filename {
	case "":
		return "f.txt"
	case "<empty>":
		return ""
	}
	return o.Filename
}

// sameErr reports identity of two error values, also for error types that
// are slices (an error list handed on unchanged), which == cannot compare.
func sameErr(a, b error) bool {
	va, vb := reflect.ValueOf(a), reflect.ValueOf(b)
	if va.Type() != vb.Type() {
		return false
	}
	if va.Kind() == reflect.Slice {
		return va.Len() == vb.Len() && va.Pointer() == vb.Pointer()
	}
	if !va.Type().Comparable() {
		return false
	}
	return a == b
}

// ErrInfo describes one reported error.
type ErrInfo struct {
	Msg           string `json:"msg"`
	IsParserError bool   `json:"is_parser_error"`
	InnerMsg      string `json:"inner_msg"`
	InjectedIdx   int    `json:"injected_idx"` // index into the run's injected errors whose identity Inner has, or -1
}

// CallResult is everything observable about one Parse call.
type CallResult struct {
	Value       string    `json:"value"`
	ValueNil    bool      `json:"value_nil"`
	ErrNil      bool      `json:"err_nil"`
	ErrIsList   bool      `json:"err_is_list"`
	ErrText     string    `json:"err_text,omitempty"`
	Errs        []ErrInfo `json:"errs,omitempty"`
	Escaped     string    `json:"escaped,omitempty"` // rendering of a panic value that reached the caller
	EscapedT    string    `json:"escaped_type,omitempty"`
	ExprCnt     uint64    `json:"expr_cnt"`
	Steps       int64     `json:"steps"`
	Aborted     bool      `json:"aborted,omitempty"`      // stopped by the step cap
	Overflow    bool      `json:"overflow,omitempty"`     // stopped by the event cap
	Backward    bool      `json:"backward,omitempty"`     // globalStore counter not monotone
	Nested      int       `json:"nested,omitempty"`       // re-entrant parses made by code blocks
	StatsDigest string    `json:"stats_digest,omitempty"` // the caller's Stats.ChoiceAltCnt after the parse
	// OptsModified: the call wrote into the spare capacity of the option slice it was given.
	OptsModified bool           `json:"opts_modified,omitempty"`
	// InputTailModified: the call wrote behind the input slice it was given (the
	// slice is a window on a larger buffer of the caller's).
	InputTailModified bool `json:"input_tail_modified,omitempty"`
	val               any  // the value as returned, kept (as a caller keeps it)
	err               error
	Events       []kernel.Event `json:"events,omitempty"`
	Injected     []InjectedInfo `json:"injected,omitempty"`
	ctx          *kernel.Ctx
}

// InjectedInfo is the JSON form of an injected error.
type InjectedInfo struct {
	Seq  int    `json:"seq"`
	Site int    `json:"site"`
	N    int    `json:"n"`
	Kind string `json:"kind"`
	Msg  string `json:"msg"`
}

// Call is one Parse invocation.
type Call struct {
	Input []byte      `json:"input"`
	Opts  Opts        `json:"opts"`
	Plan  kernel.Plan `json:"plan"`
}

// Exec runs one call on the current client and collects the result. The
// caller has prepared simrt (Solo or RunClients) and the pools.
func (p *Parser) Exec(c *Call, cl *simrt.Client) *CallResult {
	plan := c.Plan
	ctx := kernel.NewCtx(&plan)
	start := cl.Steps
	simrt.Yield(simrt.YEntry)
	// the input belongs to this execution (a block may write to it); it is a
	// window on a larger buffer, as a record inside a read buffer is: what lies
	// behind it is the caller's
	buf := make([]byte, len(c.Input)+8)
	copy(buf, c.Input)
	for i := len(c.Input); i < len(buf); i++ {
		buf[i] = 0xA5
	}
	val, err, esc, cnt := p.Parse(c.Opts.FileName(), buf[:len(c.Input)], &c.Opts, ctx)
	tailModified := false
	for i := len(c.Input); i < len(buf); i++ {
		if buf[i] != 0xA5 {
			tailModified = true
		}
	}
	simrt.Yield(simrt.YExit)
	r := &CallResult{ctx: ctx, ExprCnt: cnt, Steps: cl.Steps - start, Aborted: cl.Aborted, Overflow: ctx.Overflow, Backward: ctx.Backward, Nested: ctx.NestedRuns, StatsDigest: ctx.StatsDigest, OptsModified: ctx.OptsModified, InputTailModified: tailModified}
	if gs := ctx.GlobalStoreSeen(); gs != nil && !cl.Aborted && !ctx.Overflow && len(ctx.Events) > 0 {
		// entries of globalStore are never reverted: not when Parse returns either
		// (the map may have been returned by an action, or kept by a block)
		if n, ok := gs["cnt"].(int); !ok || n != len(ctx.Events) {
			r.Backward = true
		}
	}
	r.Value = kernel.Render(val)
	r.val = val
	r.ValueNil = val == nil
	r.ErrNil = err == nil
	r.err = err
	if esc != nil {
		r.Escaped = kernel.Render(esc)
		if _, ok := esc.(error); ok {
			r.Escaped = "err(" + esc.(error).Error() + ")"
		}
		r.EscapedT = fmt.Sprintf("%T", esc)
		if _, ok := esc.(simrt.Abort); ok {
			r.Aborted = true
		}
	}
	if err != nil {
		r.ErrText = err.Error()
		isList, elems := p.Inspect(err)
		r.ErrIsList = isList
		for _, e := range elems {
			info := ErrInfo{Msg: e.Msg, IsParserError: e.IsParserError, InjectedIdx: -1}
			if e.Inner != nil {
				info.InnerMsg = e.Inner.Error()
				for i := range ctx.Injected {
					if ctx.Injected[i].Err != nil && sameErr(ctx.Injected[i].Err, e.Inner) {
						info.InjectedIdx = i
					}
				}
				if _, ok := e.Inner.(simrt.Abort); ok {
					r.Aborted = true
				}
			}
			r.Errs = append(r.Errs, info)
		}
	}
	r.Events = ctx.Events
	for _, in := range ctx.Injected {
		msg := in.Msg
		if in.Kind == "errlate" && in.Err != nil {
			msg = in.Err.Error() // as the value reads now
		}
		r.Injected = append(r.Injected, InjectedInfo{in.Seq, in.Site, in.N, in.Kind, msg})
	}
	// the kernel's counter lives in globalStore and must equal the number of events
	return r
}

// ValueNow renders the returned value as it is now: a caller keeps what Parse
// returned, and later calls have no business changing it.
func (r *CallResult) ValueNow() string { return kernel.Render(r.val) }

// ErrTextNow renders the returned error as it reads now.
func (r *CallResult) ErrTextNow() string {
	if r.err == nil {
		return ""
	}
	return r.err.Error()
}

// Solo runs one call alone on fresh pools.
func (p *Parser) Solo(c *Call, pool simsync.PoolConfig, stepCap int64) *CallResult {
	simsync.Reset(pool)
	simmap.Configure(simmap.Asc, 0, false)
	cl := simrt.Solo(stepCap)
	return p.Exec(c, cl)
}

// After runs one call alone in the state the previous call of this process
// left behind: pools (and whatever the package keeps) are not reset.
func (p *Parser) After(c *Call, stepCap int64) *CallResult {
	simmap.Configure(simmap.Asc, 0, false)
	cl := simrt.Solo(stepCap)
	return p.Exec(c, cl)
}

// Summary renders the parts of a result that must be equal between a run and
// its twin.
func (r *CallResult) Summary() string {
	s := fmt.Sprintf("value=%s err_nil=%v escaped=%s", r.Value, r.ErrNil, r.Escaped)
	for _, e := range r.Errs {
		s += "\n  err: " + e.Msg
	}
	return s
}

// EventsText renders the history.
func (r *CallResult) EventsText() []string {
	out := make([]string, len(r.Events))
	for i := range r.Events {
		out[i] = r.Events[i].String()
	}
	return out
}

// ---------------------------------------------------------------------------
// grammar fingerprint

// DeepHash hashes everything reachable from v except function values.
func DeepHash(v any) uint64 {
	h := uint64(0xcbf29ce484222325)
	seen := map[uintptr]bool{}
	var walk func(rv reflect.Value)
	add := func(x uint64) { h = (h ^ x) * 0x100000001b3 }
	walk = func(rv reflect.Value) {
		switch rv.Kind() {
		case reflect.Invalid:
			add(1)
		case reflect.Pointer:
			if rv.IsNil() {
				add(2)
				return
			}
			if seen[rv.Pointer()] {
				add(3)
				return
			}
			seen[rv.Pointer()] = true
			walk(rv.Elem())
		case reflect.Interface:
			if rv.IsNil() {
				add(4)
				return
			}
			for _, c := range rv.Elem().Type().String() {
				add(uint64(c))
			}
			walk(rv.Elem())
		case reflect.Struct:
			for i := 0; i < rv.NumField(); i++ {
				add(uint64(i) + 100)
				walk(rv.Field(i))
			}
		case reflect.Slice, reflect.Array:
			add(uint64(rv.Len()) + 7)
			for i := 0; i < rv.Len(); i++ {
				walk(rv.Index(i))
			}
		case reflect.String:
			for _, c := range []byte(rv.String()) {
				add(uint64(c))
			}
			add(11)
		case reflect.Bool:
			if rv.Bool() {
				add(13)
			} else {
				add(17)
			}
		case reflect.Int, reflect.Int8, reflect.Int16, reflect.Int32, reflect.Int64:
			add(uint64(rv.Int()))
		case reflect.Uint, reflect.Uint8, reflect.Uint16, reflect.Uint32, reflect.Uint64, reflect.Uintptr:
			add(rv.Uint())
		case reflect.Map:
			add(uint64(rv.Len()) + 19)
			keys := rv.MapKeys()
			ks := make([]string, len(keys))
			for i, k := range keys {
				ks[i] = fmt.Sprint(k)
			}
			sort.Strings(ks)
			for _, k := range ks {
				for _, c := range []byte(k) {
					add(uint64(c))
				}
			}
		case reflect.Func:
			add(23)
		default:
			add(29)
		}
	}
	walk(reflect.ValueOf(v))
	return h
}

// DigestChoiceStats renders the Statistics option's ChoiceAltCnt map canonically.
func DigestChoiceStats(m map[string]map[string]int) string {
	keys := make([]string, 0, len(m))
	for k := range m {
		keys = append(keys, k)
	}
	sort.Strings(keys)
	var b []byte
	for _, k := range keys {
		inner := make([]string, 0, len(m[k]))
		for kk := range m[k] {
			inner = append(inner, kk)
		}
		sort.Strings(inner)
		b = append(b, k...)
		b = append(b, '{')
		for _, kk := range inner {
			b = append(b, fmt.Sprintf("%s:%d ", kk, m[k][kk])...)
		}
		b = append(b, '}', ' ')
	}
	return string(b)
}

// SharedKeys lists the keys of the Option values a call takes from the shared set.
func (o *Opts) SharedKeys() []string {
	if !o.SharedOptions {
		return nil
	}
	var k []string
	if o.Recover != nil {
		k = append(k, fmt.Sprintf("recover:%v", *o.Recover))
	}
	if o.AllowInvalidUTF8 {
		k = append(k, "utf8")
	}
	if o.EntryEmpty {
		k = append(k, "entryempty")
	} else if o.Entrypoint != "" {
		k = append(k, "entry:"+o.Entrypoint)
	}
	return k
}

// prepareFiles writes the files that calls with FilePrepared read, once,
// before anybody parses them.
func prepareFiles(p *Parser, clients [][]Call) {
	if p.PrepFile == nil {
		return
	}
	done := map[string]bool{}
	for i := range clients {
		for j := range clients[i] {
			c := &clients[i][j]
			if c.Opts.UseFile && c.Opts.FilePrepared && !done[c.Opts.FileName()] {
				done[c.Opts.FileName()] = true
				p.PrepFile(c.Opts.FileName(), c.Input)
			}
		}
	}
}

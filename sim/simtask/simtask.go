// Package simtask is the goroutine, channel and clock seam of the tool world.
//
// The pinned pigeon has no go statement, no channel operation and no use of
// package time in main, ast or builder; on that tree this package is linked
// but idle (the evidence says so: go_statements = 0). It exists for changes
// that introduce concurrency or deadlines into the tool: then every goroutine
// of the instrumented packages becomes a task of a cooperative scheduler that
// this package owns. Exactly one task runs at a time (it holds the baton);
// which task runs next, and whether a pending timer fires before a task that
// could still run ("that task was slow"), is decided from the case's seed and
// nothing else. Channel operations of instrumented code never block for real:
// they are polls that hand the baton on while they cannot proceed. Code that
// is not instrumented (goimports, the standard library) runs inside the task
// that called it, holding the baton.
package simtask

import (
	"context"
	"fmt"
	"runtime"
	"sort"
	"sync"
	"sync/atomic"
	"time"

	"verifsim/simrt"
)

type task struct {
	id   int
	wake chan struct{}
	done bool
}

type timer struct {
	at   time.Duration
	seq  int
	c    chan time.Time
	f    func()
	dead bool
}

// Stats says what the scheduler did during one run.
type Stats struct {
	Spawned     int `json:"spawned"`
	Switches    int `json:"switches"`
	TimersFired int `json:"timers_fired"`
	EarlyFires  int `json:"timers_fired_while_tasks_were_runnable"`
	Polls       int `json:"blocked_polls"`
}

// ExitHook lets the OS seam tell a child task's wrapper which panic value
// means "the program called os.Exit".
var IsExit func(v any) bool

var (
	mu         sync.Mutex // guards the fields below against the (real) goroutines that start and end tasks
	tasks      []*task
	cur        *task
	mainTask   *task
	rng        uint64
	now        time.Duration
	timers     []*timer
	timerSeq   int
	preempt    uint64
	earlyAt    int64 // yield count at which the earliest pending timer fires although tasks could run; <0: never
	yields     int64
	stats      Stats
	idle       int
	pending    any  // a panic raised in a child task, to be re-raised in the main task
	hasPanic   bool // (a nil panic value is still a panic)
	epoch      = time.Date(2024, 1, 1, 0, 0, 0, 0, time.UTC)
	generation int
)

func next() uint64 {
	rng += 0x9e3779b97f4a7c15
	z := rng
	z = (z ^ (z >> 30)) * 0xbf58476d1ce4e5b9
	z = (z ^ (z >> 27)) * 0x94d049bb133111eb
	return z ^ (z >> 31)
}

// Reset starts a new run: the caller is the main task. Tasks of earlier runs
// that never finished stay parked for ever.
func Reset(seed uint64) {
	mu.Lock()
	defer mu.Unlock()
	generation++
	mainTask = &task{id: 0, wake: make(chan struct{}, 1)}
	tasks = []*task{mainTask}
	cur = mainTask
	rng = seed
	now = 0
	timers = nil
	stats = Stats{}
	idle = 0
	pending, hasPanic = nil, false
	// how often a running task is preempted at an instrumentation step
	preempt = []uint64{7, 40, 300, 2500, 0}[next()%5]
	// does a deadline pass while the tasks it waits for could still run ("they
	// were slow")? In half of the runs never; otherwise once, at a drawn moment
	// (earlyAt: chance out of 256, at every blocked yield with a timer pending)
	earlyAt = []int64{0, 0, 256, 32}[next()%4]
	yields = 0
	simrt.StepHook = stepHook
}

// Snapshot returns the statistics of the current run.
func Snapshot() Stats { return stats }

func stepHook() {
	if len(tasks) < 2 {
		if hasPanic && cur == mainTask {
			raisePending()
		}
		return
	}
	if hasPanic && cur == mainTask {
		raisePending()
	}
	if preempt != 0 && next()%preempt == 0 {
		yield(false)
	}
}

func raisePending() {
	v := pending
	pending, hasPanic = nil, false
	panic(v)
}

func ready(except *task) []*task {
	var r []*task
	for _, t := range tasks {
		if t != except && !t.done {
			r = append(r, t)
		}
	}
	return r
}

// fireNext advances the clock to the earliest pending timer and fires it.
func fireNext() bool {
	live := timers[:0]
	for _, t := range timers {
		if !t.dead {
			live = append(live, t)
		}
	}
	timers = live
	if len(timers) == 0 {
		return false
	}
	sort.SliceStable(timers, func(i, j int) bool {
		if timers[i].at != timers[j].at {
			return timers[i].at < timers[j].at
		}
		return timers[i].seq < timers[j].seq
	})
	t := timers[0]
	timers = timers[1:]
	if t.at > now {
		now = t.at
	}
	t.dead = true
	stats.TimersFired++
	if t.f != nil {
		Go(t.f)
	} else {
		select {
		case t.c <- epoch.Add(now):
		default:
		}
	}
	return true
}

// Yield hands the baton to another task; a task calls it while it cannot
// proceed (a blocked channel operation), so simulated time may pass too.
func Yield() {
	if ExternalYield != nil {
		ExternalYield()
		return
	}
	yield(true)
}

// ExternalYield, when set, replaces this package's own scheduler as the thing
// a blocked channel operation hands over to: the parser world sets it to the
// client scheduler of package simrt (there the "tasks" are the clients).
var ExternalYield func()

func yield(blocked bool) {
	me := cur
	if hasPanic && me == mainTask {
		raisePending()
	}
	yields++
	r := ready(me)
	if len(r) == 0 {
		if !blocked {
			return
		}
		if fireNext() {
			idle = 0
			return
		}
		idle++
		if idle > 2_000_000 {
			panic("simtask: all tasks are waiting and no timer is pending (deadlock)")
		}
		runtime.Gosched() // an uninstrumented goroutine may be about to deliver something
		return
	}
	idle = 0
	if blocked && earlyAt > 0 && len(timers) > 0 && int64(next()%256) < earlyAt {
		// the runnable tasks were slow: a deadline passes first
		if fireNext() {
			// the waiting task sees the deadline before anything else happens
			stats.EarlyFires++
			return
		}
	}
	nt := r[next()%uint64(len(r))]
	switchTo(me, nt)
	if hasPanic && me == mainTask {
		raisePending()
	}
}

func switchTo(me, nt *task) {
	stats.Switches++
	cur = nt
	nt.wake <- struct{}{}
	if me != nil && !me.done {
		<-me.wake
	}
}

// Go is what a go statement of instrumented code becomes.
func Go(f func()) {
	mu.Lock()
	t := &task{id: len(tasks), wake: make(chan struct{}, 1)}
	tasks = append(tasks, t)
	stats.Spawned++
	gen := generation
	mu.Unlock()
	go func() {
		<-t.wake
		defer func() {
			if v := recover(); v != nil || false {
				// a panic in a goroutine ends the program; so does os.Exit. Either way
				// the main task is where the run is observed: re-raise it there.
				if gen == generation && !hasPanic {
					pending, hasPanic = v, true
				}
			}
			t.done = true
			if gen != generation {
				return
			}
			r := ready(t)
			if len(r) == 0 {
				return
			}
			nt := r[next()%uint64(len(r))]
			if hasPanic {
				nt = mainTask
				if mainTask.done {
					return
				}
			}
			switchTo(nil, nt)
		}()
		f()
	}()
	// the new task may run first, or the parent goes on
	if next()%2 == 0 {
		switchTo(cur, t)
	}
}

// ---------------------------------------------------------------------------
// channel operations of instrumented code

func poll() {
	stats.Polls++
	simrt.Charge(25)
	Yield()
}

// An unbuffered channel needs one side parked in the operation for the other
// side's attempt to succeed, and a poll never parks. For those channels the
// operation is carried out by a helper goroutine that does park; the task
// polls the helper's flag. (Which task runs stays the scheduler's decision;
// how many polls a rendezvous takes can vary by one or two with real timing,
// so schedules through unbuffered channels replay best-effort only.)
type helper struct {
	done atomic.Bool
	pan  any
	bad  bool
}

func (h *helper) wait() {
	for {
		for i := 0; i < 200 && !h.done.Load(); i++ {
			runtime.Gosched()
		}
		if h.done.Load() {
			if h.bad {
				panic(h.pan)
			}
			return
		}
		poll()
	}
}

func (h *helper) run(f func()) {
	go func() {
		defer func() {
			if v := recover(); v != nil {
				h.pan, h.bad = v, true
			}
			h.done.Store(true)
		}()
		f()
	}()
}

// Recv is `<-ch`.
func Recv[T any](ch <-chan T) T {
	v, _ := Recv2(ch)
	return v
}

// Recv2 is `v, ok := <-ch`.
func Recv2[T any](ch <-chan T) (v T, ok bool) {
	if cap(ch) == 0 {
		var h helper
		h.run(func() { v, ok = <-ch })
		h.wait()
		return v, ok
	}
	for {
		select {
		case v, ok := <-ch:
			return v, ok
		default:
			poll()
		}
	}
}

// Send is `ch <- v`.
func Send[T any](ch chan<- T, v T) {
	if cap(ch) == 0 {
		var h helper
		h.run(func() { ch <- v })
		h.wait()
		return
	}
	for {
		select {
		case ch <- v:
			return
		default:
			poll()
		}
	}
}

// ---------------------------------------------------------------------------
// package time, as far as a tool would use it

// Timer mirrors the part of time.Timer that is used through its fields and methods.
type Timer struct {
	C <-chan time.Time
	t *timer
}

func newTimer(d time.Duration, f func()) *timer {
	timerSeq++
	t := &timer{at: now + d, seq: timerSeq, c: make(chan time.Time, 1), f: f}
	timers = append(timers, t)
	return t
}

// After is time.After.
func After(d time.Duration) <-chan time.Time { return newTimer(d, nil).c }

// NewTimer is time.NewTimer.
func NewTimer(d time.Duration) *Timer {
	t := newTimer(d, nil)
	return &Timer{C: t.c, t: t}
}

// AfterFunc is time.AfterFunc.
func AfterFunc(d time.Duration, f func()) *Timer {
	t := newTimer(d, f)
	return &Timer{t: t}
}

// Stop is (*time.Timer).Stop.
func (t *Timer) Stop() bool {
	was := !t.t.dead
	t.t.dead = true
	return was
}

// Reset is (*time.Timer).Reset.
func (t *Timer) Reset(d time.Duration) bool {
	was := !t.t.dead
	t.t.dead = true
	nt := newTimer(d, t.t.f)
	nt.c = t.t.c
	t.t = nt
	return was
}

// Sleep is time.Sleep.
func Sleep(d time.Duration) {
	if d <= 0 {
		return
	}
	Recv(After(d))
}

// Now is time.Now.
func Now() time.Time { return epoch.Add(now) }

// Since is time.Since.
func Since(t time.Time) time.Duration { return Now().Sub(t) }

// Until is time.Until.
func Until(t time.Time) time.Duration { return t.Sub(Now()) }

// Tick is time.Tick (one tick; enough for a deadline loop).
func Tick(d time.Duration) <-chan time.Time { return After(d) }

type deadlineCtx struct {
	context.Context
	done chan struct{}
	err  error
	at   time.Time
	once sync.Once
}

func (c *deadlineCtx) Done() <-chan struct{} { return c.done }
func (c *deadlineCtx) Err() error {
	select {
	case <-c.done:
		return c.err
	default:
		return nil
	}
}
func (c *deadlineCtx) Deadline() (time.Time, bool) { return c.at, true }

// WithTimeout is context.WithTimeout on the simulated clock.
func WithTimeout(parent context.Context, d time.Duration) (context.Context, context.CancelFunc) {
	c := &deadlineCtx{Context: parent, done: make(chan struct{}), at: Now().Add(d)}
	finish := func(err error) {
		c.once.Do(func() {
			c.err = err
			close(c.done)
		})
	}
	t := newTimer(d, nil)
	t.f = func() { finish(context.DeadlineExceeded) }
	return c, func() {
		t.dead = true
		finish(context.Canceled)
	}
}

// WithDeadline is context.WithDeadline on the simulated clock.
func WithDeadline(parent context.Context, at time.Time) (context.Context, context.CancelFunc) {
	return WithTimeout(parent, at.Sub(Now()))
}

// Describe is used in evidence files.
func Describe() string {
	return fmt.Sprintf("cooperative scheduler: one task at a time, seeded choice of the next task at spawn, at blocked channel operations and at preempted instrumentation steps; simulated clock fired when no task can run, or (1 in 4) before runnable tasks")
}

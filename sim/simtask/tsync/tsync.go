// Package tsync stands in for package sync in instrumented tool-world packages
// that start goroutines: waiting never blocks for real, it hands the baton on.
package tsync

import (
	"sync"

	"verifsim/simtask"
)

type (
	Pool   = sync.Pool
	Map    = sync.Map
	Locker = sync.Locker
)

// Mutex is a cooperative sync.Mutex.
type Mutex struct{ held bool }

func (m *Mutex) Lock() {
	for m.held {
		simtask.Yield()
	}
	m.held = true
}
func (m *Mutex) TryLock() bool {
	if m.held {
		return false
	}
	m.held = true
	return true
}
func (m *Mutex) Unlock() {
	if !m.held {
		panic("sync: unlock of unlocked mutex")
	}
	m.held = false
}

// RWMutex is a cooperative sync.RWMutex.
type RWMutex struct {
	w bool
	r int
}

func (m *RWMutex) Lock() {
	for m.w || m.r > 0 {
		simtask.Yield()
	}
	m.w = true
}
func (m *RWMutex) Unlock() { m.w = false }
func (m *RWMutex) RLock() {
	for m.w {
		simtask.Yield()
	}
	m.r++
}
func (m *RWMutex) RUnlock()        { m.r-- }
func (m *RWMutex) RLocker() Locker { return rl{m} }

type rl struct{ m *RWMutex }

func (r rl) Lock()   { r.m.RLock() }
func (r rl) Unlock() { r.m.RUnlock() }

// WaitGroup is a cooperative sync.WaitGroup.
type WaitGroup struct{ n int }

func (w *WaitGroup) Add(d int) {
	w.n += d
	if w.n < 0 {
		panic("sync: negative WaitGroup counter")
	}
}
func (w *WaitGroup) Done() { w.Add(-1) }
func (w *WaitGroup) Wait() {
	for w.n > 0 {
		simtask.Yield()
	}
}
func (w *WaitGroup) Go(f func()) {
	w.Add(1)
	simtask.Go(func() {
		defer w.Done()
		f()
	})
}

// Once is a cooperative sync.Once.
type Once struct {
	done, running bool
}

func (o *Once) Do(f func()) {
	for o.running {
		simtask.Yield()
	}
	if o.done {
		return
	}
	o.running = true
	defer func() { o.done, o.running = true, false }()
	f()
}

func OnceFunc(f func()) func() {
	var o Once
	return func() { o.Do(f) }
}

func OnceValue[T any](f func() T) func() T {
	var o Once
	var v T
	return func() T {
		o.Do(func() { v = f() })
		return v
	}
}

func OnceValues[T1, T2 any](f func() (T1, T2)) func() (T1, T2) {
	var o Once
	var v1 T1
	var v2 T2
	return func() (T1, T2) {
		o.Do(func() { v1, v2 = f() })
		return v1, v2
	}
}

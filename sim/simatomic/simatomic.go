// Package simatomic stands in for sync/atomic in instrumented parser-world
// code: every operation is first a scheduling point of the simulated scheduler
// (another client may run between a load and the compare-and-swap that
// follows it, between the write of a slot and the publication of its index)
// and then the real atomic operation, so that the race detector keeps seeing
// the synchronisation the code under test really performs.
package simatomic

import (
	"sync/atomic"
	"unsafe"

	"verifsim/simrt"
)

func y() { simrt.Yield(simrt.YAtomic) }

func AddInt32(addr *int32, delta int32) int32 { y(); return atomic.AddInt32(addr, delta) }
func LoadInt32(addr *int32) int32             { y(); return atomic.LoadInt32(addr) }
func StoreInt32(addr *int32, val int32)       { y(); atomic.StoreInt32(addr, val) }
func SwapInt32(addr *int32, new int32) int32  { y(); return atomic.SwapInt32(addr, new) }
func CompareAndSwapInt32(addr *int32, old, new int32) bool {
	y()
	return atomic.CompareAndSwapInt32(addr, old, new)
}
func AndInt32(addr *int32, mask int32) int32  { y(); return atomic.AndInt32(addr, mask) }
func OrInt32(addr *int32, mask int32) int32   { y(); return atomic.OrInt32(addr, mask) }
func AddInt64(addr *int64, delta int64) int64 { y(); return atomic.AddInt64(addr, delta) }
func LoadInt64(addr *int64) int64             { y(); return atomic.LoadInt64(addr) }
func StoreInt64(addr *int64, val int64)       { y(); atomic.StoreInt64(addr, val) }
func SwapInt64(addr *int64, new int64) int64  { y(); return atomic.SwapInt64(addr, new) }
func CompareAndSwapInt64(addr *int64, old, new int64) bool {
	y()
	return atomic.CompareAndSwapInt64(addr, old, new)
}
func AndInt64(addr *int64, mask int64) int64      { y(); return atomic.AndInt64(addr, mask) }
func OrInt64(addr *int64, mask int64) int64       { y(); return atomic.OrInt64(addr, mask) }
func AddUint32(addr *uint32, delta uint32) uint32 { y(); return atomic.AddUint32(addr, delta) }
func LoadUint32(addr *uint32) uint32              { y(); return atomic.LoadUint32(addr) }
func StoreUint32(addr *uint32, val uint32)        { y(); atomic.StoreUint32(addr, val) }
func SwapUint32(addr *uint32, new uint32) uint32  { y(); return atomic.SwapUint32(addr, new) }
func CompareAndSwapUint32(addr *uint32, old, new uint32) bool {
	y()
	return atomic.CompareAndSwapUint32(addr, old, new)
}
func AndUint32(addr *uint32, mask uint32) uint32  { y(); return atomic.AndUint32(addr, mask) }
func OrUint32(addr *uint32, mask uint32) uint32   { y(); return atomic.OrUint32(addr, mask) }
func AddUint64(addr *uint64, delta uint64) uint64 { y(); return atomic.AddUint64(addr, delta) }
func LoadUint64(addr *uint64) uint64              { y(); return atomic.LoadUint64(addr) }
func StoreUint64(addr *uint64, val uint64)        { y(); atomic.StoreUint64(addr, val) }
func SwapUint64(addr *uint64, new uint64) uint64  { y(); return atomic.SwapUint64(addr, new) }
func CompareAndSwapUint64(addr *uint64, old, new uint64) bool {
	y()
	return atomic.CompareAndSwapUint64(addr, old, new)
}
func AndUint64(addr *uint64, mask uint64) uint64      { y(); return atomic.AndUint64(addr, mask) }
func OrUint64(addr *uint64, mask uint64) uint64       { y(); return atomic.OrUint64(addr, mask) }
func AddUintptr(addr *uintptr, delta uintptr) uintptr { y(); return atomic.AddUintptr(addr, delta) }
func LoadUintptr(addr *uintptr) uintptr               { y(); return atomic.LoadUintptr(addr) }
func StoreUintptr(addr *uintptr, val uintptr)         { y(); atomic.StoreUintptr(addr, val) }
func SwapUintptr(addr *uintptr, new uintptr) uintptr  { y(); return atomic.SwapUintptr(addr, new) }
func CompareAndSwapUintptr(addr *uintptr, old, new uintptr) bool {
	y()
	return atomic.CompareAndSwapUintptr(addr, old, new)
}
func AndUintptr(addr *uintptr, mask uintptr) uintptr { y(); return atomic.AndUintptr(addr, mask) }
func OrUintptr(addr *uintptr, mask uintptr) uintptr  { y(); return atomic.OrUintptr(addr, mask) }

func LoadPointer(addr *unsafe.Pointer) unsafe.Pointer       { y(); return atomic.LoadPointer(addr) }
func StorePointer(addr *unsafe.Pointer, val unsafe.Pointer) { y(); atomic.StorePointer(addr, val) }
func SwapPointer(addr *unsafe.Pointer, new unsafe.Pointer) unsafe.Pointer {
	y()
	return atomic.SwapPointer(addr, new)
}
func CompareAndSwapPointer(addr *unsafe.Pointer, old, new unsafe.Pointer) bool {
	y()
	return atomic.CompareAndSwapPointer(addr, old, new)
}

// Int32 mirrors atomic.Int32.
type Int32 struct{ v atomic.Int32 }

func (x *Int32) Load() int32                        { y(); return x.v.Load() }
func (x *Int32) Store(val int32)                    { y(); x.v.Store(val) }
func (x *Int32) Swap(new int32) int32               { y(); return x.v.Swap(new) }
func (x *Int32) CompareAndSwap(old, new int32) bool { y(); return x.v.CompareAndSwap(old, new) }
func (x *Int32) Add(delta int32) int32              { y(); return x.v.Add(delta) }
func (x *Int32) And(mask int32) int32               { y(); return x.v.And(mask) }
func (x *Int32) Or(mask int32) int32                { y(); return x.v.Or(mask) }

// Int64 mirrors atomic.Int64.
type Int64 struct{ v atomic.Int64 }

func (x *Int64) Load() int64                        { y(); return x.v.Load() }
func (x *Int64) Store(val int64)                    { y(); x.v.Store(val) }
func (x *Int64) Swap(new int64) int64               { y(); return x.v.Swap(new) }
func (x *Int64) CompareAndSwap(old, new int64) bool { y(); return x.v.CompareAndSwap(old, new) }
func (x *Int64) Add(delta int64) int64              { y(); return x.v.Add(delta) }
func (x *Int64) And(mask int64) int64               { y(); return x.v.And(mask) }
func (x *Int64) Or(mask int64) int64                { y(); return x.v.Or(mask) }

// Uint32 mirrors atomic.Uint32.
type Uint32 struct{ v atomic.Uint32 }

func (x *Uint32) Load() uint32                        { y(); return x.v.Load() }
func (x *Uint32) Store(val uint32)                    { y(); x.v.Store(val) }
func (x *Uint32) Swap(new uint32) uint32              { y(); return x.v.Swap(new) }
func (x *Uint32) CompareAndSwap(old, new uint32) bool { y(); return x.v.CompareAndSwap(old, new) }
func (x *Uint32) Add(delta uint32) uint32             { y(); return x.v.Add(delta) }
func (x *Uint32) And(mask uint32) uint32              { y(); return x.v.And(mask) }
func (x *Uint32) Or(mask uint32) uint32               { y(); return x.v.Or(mask) }

// Uint64 mirrors atomic.Uint64.
type Uint64 struct{ v atomic.Uint64 }

func (x *Uint64) Load() uint64                        { y(); return x.v.Load() }
func (x *Uint64) Store(val uint64)                    { y(); x.v.Store(val) }
func (x *Uint64) Swap(new uint64) uint64              { y(); return x.v.Swap(new) }
func (x *Uint64) CompareAndSwap(old, new uint64) bool { y(); return x.v.CompareAndSwap(old, new) }
func (x *Uint64) Add(delta uint64) uint64             { y(); return x.v.Add(delta) }
func (x *Uint64) And(mask uint64) uint64              { y(); return x.v.And(mask) }
func (x *Uint64) Or(mask uint64) uint64               { y(); return x.v.Or(mask) }

// Uintptr mirrors atomic.Uintptr.
type Uintptr struct{ v atomic.Uintptr }

func (x *Uintptr) Load() uintptr                        { y(); return x.v.Load() }
func (x *Uintptr) Store(val uintptr)                    { y(); x.v.Store(val) }
func (x *Uintptr) Swap(new uintptr) uintptr             { y(); return x.v.Swap(new) }
func (x *Uintptr) CompareAndSwap(old, new uintptr) bool { y(); return x.v.CompareAndSwap(old, new) }
func (x *Uintptr) Add(delta uintptr) uintptr            { y(); return x.v.Add(delta) }
func (x *Uintptr) And(mask uintptr) uintptr             { y(); return x.v.And(mask) }
func (x *Uintptr) Or(mask uintptr) uintptr              { y(); return x.v.Or(mask) }

// Bool mirrors atomic.Bool.
type Bool struct{ v atomic.Bool }

func (x *Bool) Load() bool                        { y(); return x.v.Load() }
func (x *Bool) Store(val bool)                    { y(); x.v.Store(val) }
func (x *Bool) Swap(new bool) bool                { y(); return x.v.Swap(new) }
func (x *Bool) CompareAndSwap(old, new bool) bool { y(); return x.v.CompareAndSwap(old, new) }

// Pointer mirrors atomic.Pointer.
type Pointer[T any] struct{ v atomic.Pointer[T] }

func (x *Pointer[T]) Load() *T                        { y(); return x.v.Load() }
func (x *Pointer[T]) Store(val *T)                    { y(); x.v.Store(val) }
func (x *Pointer[T]) Swap(new *T) *T                  { y(); return x.v.Swap(new) }
func (x *Pointer[T]) CompareAndSwap(old, new *T) bool { y(); return x.v.CompareAndSwap(old, new) }

// Value mirrors atomic.Value.
type Value struct{ v atomic.Value }

func (x *Value) Load() any                        { y(); return x.v.Load() }
func (x *Value) Store(val any)                    { y(); x.v.Store(val) }
func (x *Value) Swap(new any) any                 { y(); return x.v.Swap(new) }
func (x *Value) CompareAndSwap(old, new any) bool { y(); return x.v.CompareAndSwap(old, new) }

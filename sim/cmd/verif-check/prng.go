package main

// splitmix64-based deterministic streams. Every random decision of the
// harness derives from VERIF_SEED through these.

type rng struct{ s uint64 }

func mix64(z uint64) uint64 {
	z += 0x9e3779b97f4a7c15
	z = (z ^ (z >> 30)) * 0xbf58476d1ce4e5b9
	z = (z ^ (z >> 27)) * 0x94d049bb133111eb
	return z ^ (z >> 31)
}

func newRng(seed uint64, labels ...uint64) *rng {
	s := mix64(seed)
	for _, l := range labels {
		s = mix64(s ^ mix64(l))
	}
	return &rng{s: s}
}

func hashLabel(s string) uint64 {
	h := uint64(0xcbf29ce484222325)
	for i := 0; i < len(s); i++ {
		h = (h ^ uint64(s[i])) * 0x100000001b3
	}
	return h
}

func (r *rng) u64() uint64 {
	r.s += 0x9e3779b97f4a7c15
	z := r.s
	z = (z ^ (z >> 30)) * 0xbf58476d1ce4e5b9
	z = (z ^ (z >> 27)) * 0x94d049bb133111eb
	return z ^ (z >> 31)
}

func (r *rng) intn(n int) int {
	if n <= 1 {
		return 0
	}
	return int(r.u64() % uint64(n))
}

func (r *rng) chance(num, den int) bool { return r.intn(den) < num }

func (r *rng) pick(xs []string) string { return xs[r.intn(len(xs))] }

func (r *rng) pickNames(xs [][]string) []string { return xs[r.intn(len(xs))] }

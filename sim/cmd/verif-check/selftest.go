package main

import (
	"crypto/sha256"
	"encoding/hex"
	"encoding/json"
	"fmt"
	"os"
	"sync"
	"time"

	"verifsim/parsersim"
	"verifsim/simmap"
	"verifsim/simos"
	"verifsim/tooldriver"
)

// selftest proves determinism of the machinery before any verdict is trusted:
// the same cases are executed in fresh child processes under three different
// (worker count, GOMAXPROCS) configurations and every response must be
// byte-identical. It exits 0 when deterministic, 2 otherwise (never VIOLATION).
func runSelftest(args []string) int {
	seeds := 6
	if len(args) > 0 {
		fmt.Sscan(args[0], &seeds)
	}
	start := time.Now()
	sc := newScratch("selftest")
	_, pigeon := buildPigeon(sc)
	tw := buildToolWorld(sc)
	type conf struct{ workers, procs int }
	confs := []conf{{16, 16}, {3, 1}, {8, 4}}
	bad := 0
	totalCases := 0

	for s := 1; s <= seeds; s++ {
		seed := uint64(s) * 7919
		// ---- tool world
		r := newRng(seed, hashLabel("selftest-tool"))
		var cases []tooldriver.Case
		for i := 0; i < 40; i++ {
			var in toolInput
			switch r.intn(3) {
			case 0:
				in, _ = genToolGrammar(r, r.chance(1, 3))
			case 1:
				in = genFreeRefGrammar(r)
			default:
				base, _ := genToolGrammar(r, false)
				in = toolInput{Name: "mut", Grammar: mutateGrammar(r, base.Grammar)}
			}
			in.Flags = drawFlags(r, in.Rules, in.Class != "gen")
			f := simos.NoFaults()
			if r.chance(1, 2) {
				f.InChunkSeed = r.u64() | 1
			}
			if r.chance(1, 4) {
				f.OutWriteErrAt = r.intn(3000)
			}
			mode := []int{simmap.Asc, simmap.Desc, simmap.PermStable, simmap.PermVarying, simmap.PermGlobal}[r.intn(5)]
			if r.chance(1, 5) {
				in = crlfVariant(r, in)
			}
			conc := i%5 == 4 && !contains(in.Flags, "-x")
			if conc {
				in.Rebuild = true // library-style double build ...
			}
			cs := makeCase(fmt.Sprintf("st-%d-%d", s, i), in, delivery{viaFile: r.chance(1, 2), outFile: r.chance(1, 2)}, f, mode, r.u64(), 2)
			if conc {
				cs.RebuildVariant = 3 // ... with two builds at the same time under the task scheduler
			}
			cases = append(cases, cs)
		}
		var ref []string
		for ci, cf := range confs {
			env := append(goEnv(), fmt.Sprintf("GOMAXPROCS=%d", cf.procs))
			sigs := make([]string, len(cases))
			var wg sync.WaitGroup
			sem := make(chan struct{}, cf.workers)
			for i := range cases {
				wg.Add(1)
				go func(i int) {
					defer wg.Done()
					sem <- struct{}{}
					defer func() { <-sem }()
					w := &worker{bin: tw.bin, env: env}
					line, st, _ := w.call(&cases[i], 30*time.Second)
					if w.cmd != nil {
						w.in.Close()
						w.kill()
					}
					if st != callOK {
						sigs[i] = fmt.Sprint("status-", st)
						return
					}
					var res tooldriver.Result
					json.Unmarshal(line, &res)
					var sig string
					for k := range res.Runs {
						sig += runSignature(&res.Runs[k]) + fmt.Sprintf("|%v|%d|steps=%d|sched=%v;", res.Runs[k].Fired, res.Runs[k].Map.Ranges2, res.Runs[k].Steps, res.Runs[k].Sched)
					}
					sigs[i] = sig
				}(i)
			}
			wg.Wait()
			if ci == 0 {
				ref = sigs
				continue
			}
			for i := range sigs {
				if sigs[i] != ref[i] {
					bad++
					fmt.Fprintf(os.Stderr, "NONDETERMINISM tool world seed %d case %d conf %v:\n  %s\n  %s\n", s, i, cf, ref[i], sigs[i])
				}
			}
		}
		totalCases += len(cases)

		// ---- parser world
		pr := newRng(seed, hashLabel("selftest-parser"))
		var specs []*genParser
		for i := 0; i < 80; i++ {
			specs = append(specs, drawSpec(pr, fmt.Sprintf("p%03d", i), specBias{nullableLoops: 15, leftRec: 20, states: 70, preds: 60, actions: 85, throws: 25, optimized: 35, display: 20, unicode: 40, stateBias: true, lrDirect: true, topLoop: 8}))
		}
		pw := buildParserWorld(sc, pigeon, specs, false)
		var reqs []*parsersim.Request
		small := pParams{grammars: 80, inputs: 1, optSets: 1, enumMax: 40, extra: 2}
		for _, gp := range pw.parsers {
			reqs = append(reqs, propC16.mkReqs(pr, gp, small)...)
			reqs = append(reqs, propC11.mkReqs(pr, gp, small)...)
			if propC05.accept(gp) {
				reqs = append(reqs, propC05.mkReqs(pr, gp, small)...)
			}
			reqs = append(reqs, c18Prop(false).mkReqs(pr, gp, pParams{extra: 1})...)
		}
		var pref []string
		for ci, cf := range confs {
			env := append(goEnv(), fmt.Sprintf("GOMAXPROCS=%d", cf.procs))
			os.Setenv("VERIF_WORKERS", fmt.Sprint(cf.workers))
			outs := runParserCases(pw, reqs, 120*time.Second, env, 5)
			sigs := make([]string, len(outs))
			for i, o := range outs {
				if o.Status != "ok" {
					sigs[i] = o.Status
					if ci == 0 {
						fmt.Fprintf(os.Stderr, "NOTE: selftest seed %d: request %s (%s, parser %s) ended with status %s\n", s, reqs[i].ID, reqs[i].Kind, reqs[i].Parser, o.Status)
					}
					continue
				}
				b, _ := json.Marshal(o.Resp)
				h := sha256.Sum256(b)
				sigs[i] = hex.EncodeToString(h[:8])
			}
			if ci == 0 {
				pref = sigs
				continue
			}
			for i := range sigs {
				if sigs[i] != pref[i] {
					bad++
					fmt.Fprintf(os.Stderr, "NONDETERMINISM parser world seed %d request %s (%s) conf %v\n", s, reqs[i].ID, reqs[i].Kind, cf)
				}
			}
		}
		os.Unsetenv("VERIF_WORKERS")
		totalCases += len(reqs)
		os.RemoveAll(pw.dir)
	}
	fmt.Printf("selftest: %d seeds, %d cases x %d configurations (workers/GOMAXPROCS %v), %d mismatches, %.1fs\n", seeds, totalCases, len(confs), confs, bad, since(start))
	if bad > 0 {
		fmt.Fprintln(os.Stderr, "HARNESS-ERROR: the simulation is not deterministic")
		return 2
	}
	return 0
}

package main

import (
	"encoding/json"
	"fmt"
	"hash/fnv"
	"os"
	"path/filepath"
	"regexp"
	"strconv"
	"strings"
	"sync"
	"time"

	"verifsim/gen"
	"verifsim/parsersim"
	"verifsim/rewrite"
)

// genParser is one generated grammar with the flags pigeon is run with.
type genParser struct {
	Name      string          `json:"name"`
	G         *gen.Grammar    `json:"-"`
	Text      string          `json:"text"`
	Flags     []string        `json:"flags"`
	Optimized bool            `json:"optimized"`
	HasState  bool            `json:"has_state"`
	LeftRec   bool            `json:"left_rec"`
	Receiver  string          `json:"receiver"`
	Has       map[string]bool `json:"has"`
	Rejected  string          `json:"rejected,omitempty"`
	Twin      string          `json:"twin,omitempty"`      // name of the clock twin, if one was built
	ClockFor  string          `json:"clock_for,omitempty"` // this parser is the clock twin of that one
	// GrammarVar is the package-level variable holding the grammar value in the
	// generated file, found by its shape (var X = &T{ rules: ...), not by name.
	GrammarVar string `json:"grammar_var,omitempty"`
}

type parserWorld struct {
	dir     string
	bin     string
	race    bool
	parsers []*genParser
	rewrite *rewrite.Result
}

// kernelCode renders the code blocks as calls into the simulation kernel.
func kernelCode(recv string, withState, viaHelper, globalViaHelper, replaceStore bool) gen.CodeFunc {
	return func(s gen.SiteInfo) string {
		gs := recv + ".globalStore"
		if globalViaHelper {
			// ... and the same for the global store
			gs = "verifGlobal(" + recv + ")"
		}
		st := "nil"
		if withState {
			st = recv + ".state"
			if viaHelper {
				// user code often hands the whole context to a helper; the block's
				// own text then never mentions the store
				st = "verifStore(" + recv + ")"
			}
		}
		args := fmt.Sprintf("%s, %d, %s.pos.line, %s.pos.col, %s.pos.offset, %s.text, %s", gs, s.Site, recv, recv, recv, recv, st)
		for _, l := range s.Labels {
			args += ", " + l
		}
		switch s.Kind {
		case gen.Action:
			return "{ return k.Act(" + args + ") }"
		case gen.State:
			if replaceStore && withState && !viaHelper && s.Site%2 == 0 {
				// user code may replace the store wholesale (same entries, another map)
				return "{ " + recv + ".state = k.CopyStore(" + recv + ".state); return k.State(" + args + ") }"
			}
			return "{ return k.State(" + args + ") }"
		}
		return "{ return k.Pred(" + args + ") }"
	}
}

// newGenParser prints the grammar for the parser world.
func newGenParser(name string, g *gen.Grammar, flags []string) *genParser {
	gp := &genParser{Name: name, G: g, Flags: flags, Receiver: "c"}
	for i, f := range flags {
		switch f {
		case "-optimize-parser":
			gp.Optimized = true
		case "-support-left-recursion":
			gp.LeftRec = true
		case "-receiver-name":
			gp.Receiver = flags[i+1]
		}
	}
	gp.HasState = g.HasKind(gen.State)
	withState := gp.HasState || !gp.Optimized
	hdr := "{\npackage " + name + "\n\nimport k \"verifsim/kernel\"\n}"
	// a third of the parsers reach the store through a helper function
	hh := fnv.New32a()
	hh.Write([]byte(name))
	for _, f := range flags {
		hh.Write([]byte(f))
	}
	hh.Write([]byte(fmt.Sprint(len(g.Rules), len(g.Sites))))
	viaHelper := withState && hh.Sum32()%3 == 0
	// another third (overlapping) reaches the global store through a helper:
	// the text of their blocks never says globalStore
	globalViaHelper := (hh.Sum32()/3)%3 == 0
	helpers := ""
	if viaHelper {
		helpers += "\nfunc verifStore(x *current) map[string]any { return x.state }\n"
	}
	if globalViaHelper {
		helpers += "\nfunc verifGlobal(x *current) map[string]any { return x.globalStore }\n"
	}
	if helpers != "" {
		hdr = "{\npackage " + name + "\n\nimport k \"verifsim/kernel\"\n" + helpers + "}"
	}
	// a quarter of the parsers with state blocks replace the store wholesale in
	// every other state block
	replaceStore := (hh.Sum32()/9)%4 == 0
	gp.Text = g.Print(gen.PrintOptions{Header: hdr, Code: kernelCode(gp.Receiver, withState, viaHelper, globalViaHelper, replaceStore)})
	return gp
}

// notCompiling counts generated parsers left out because they did not compile.
var notCompiling int

var grammarVarRe = regexp.MustCompile(`(?m)^var (\w+) = &\w+\s*\{\s*\n\s*rules:`)

const glueTemplate = `package %[1]s

import (
	"bytes"
	"fmt"
	"os"
	"path/filepath"
	"sync"

	"verifsim/kernel"
	"verifsim/parsersim"
	"verifsim/simrt"
)

func init() {
	parsersim.Register(&parsersim.Parser{
		Name:        %[1]q,
		GrammarJSON: %[2]s,
		GrammarText: %[3]s,
		Flags:       %[4]s,
		Has:         %[5]s,
		Prebuild:    verifPrebuild,
		PrepFile:    verifPrepFile,
		Parse:       verifParse,
		Inspect:     verifInspect,
		G:           func() any { return %[8]s },
	})
}

var verifFileOnce sync.Once

// Option values built once and applied by several clients.
var verifShared map[string]Option

func verifPrebuild(keys []string) {
	m := map[string]Option{}
	for _, k := range keys {
		switch {
		case k == "recover:true":
			m[k] = Recover(true)
		case k == "recover:false":
			m[k] = Recover(false)
		case k == "utf8":
			m[k] = AllowInvalidUTF8(true)
		case k == "entryempty":
			m[k] = Entrypoint("")
		case len(k) > 6 && k[:6] == "entry:":
			m[k] = Entrypoint(k[6:])
		}
	}
	verifShared = m
}

func verifPrepFile(filename string, input []byte) {
	verifFileOnce.Do(func() {
		d, e := os.MkdirTemp(os.Getenv("VERIF_PF_DIR"), "pf-")
		if e != nil {
			panic(e)
		}
		if e := os.Chdir(d); e != nil {
			panic(e)
		}
	})
	os.MkdirAll(filepath.Dir(filename), 0o755)
	if e := os.WriteFile(filename, input, 0o644); e != nil {
		panic(e)
	}
}

func verifOpt(o *parsersim.Opts, key string, mk func() Option) Option {
	if o.SharedOptions {
		if v, ok := verifShared[key]; ok {
			return v
		}
	}
	return mk()
}

// Option values kept and re-applied (single-client campaigns only).
var verifMaxExprOpts = map[uint64]Option{}

func verifParse(filename string, input []byte, o *parsersim.Opts, ctx *kernel.Ctx) (val any, err error, esc any, cnt uint64) {
	opts := []Option{GlobalStore("sim", ctx)}
	if o.NoGlobalOpt {
		opts = nil
		simrt.SetLocal(ctx)
		defer simrt.SetLocal(nil)
	}
	ctx.Nested = func() {
		simrt.Nested(200000, func() {
			np := kernel.Plan{Seed: ctx.Plan.Seed ^ 0x5bd1e995, PredTruePct: 50, StateKeys: 2, MaxEvents: 60}
			Parse("nested", []byte("ab\n"), GlobalStore("sim", kernel.NewCtx(&np)), MaxExpressions(120))
		})
	}
	ctx.NestedErr = func() (nerr error) {
		simrt.Nested(200000, func() {
			np := kernel.Plan{Seed: ctx.Plan.Seed ^ 0x2545f491, PredTruePct: 50, StateKeys: 2, MaxEvents: 60}
			_, nerr = Parse("inc.txt", []byte("\x00?\n\x00"), GlobalStore("sim", kernel.NewCtx(&np)), MaxExpressions(120))
		})
		return
	}
	if o.Overridden {
		// defaults first, the caller's own settings after them
		rec := true
		if o.Recover != nil {
			rec = *o.Recover
		}
		opts = append(opts, Recover(!rec), AllowInvalidUTF8(!o.AllowInvalidUTF8), MaxExpressions(o.MaxExpr/2+7))
		if o.OverriddenEntry != "" {
			opts = append(opts, Entrypoint(o.OverriddenEntry))
		}
	}
%[6]s
	if o.Recover != nil {
		opts = append(opts, verifOpt(o, fmt.Sprintf("recover:%%v", *o.Recover), func() Option { return Recover(*o.Recover) }))
	}
	if o.AllowInvalidUTF8 {
		opts = append(opts, verifOpt(o, "utf8", func() Option { return AllowInvalidUTF8(true) }))
	}
	if o.EntryEmpty {
		opts = append(opts, verifOpt(o, "entryempty", func() Option { return Entrypoint("") }))
	} else if o.Entrypoint != "" {
		opts = append(opts, verifOpt(o, "entry:"+o.Entrypoint, func() Option { return Entrypoint(o.Entrypoint) }))
	}
	if o.Overridden {
		if o.Recover == nil {
			opts = append(opts, Recover(true))
		}
		if !o.AllowInvalidUTF8 {
			opts = append(opts, AllowInvalidUTF8(false))
		}
		if !o.EntryEmpty && o.Entrypoint == "" {
			opts = append(opts, Entrypoint(""))
		}
		if o.MaxExpr == 0 {
			opts = append(opts, MaxExpressions(0))
		}
	}
	if o.MaxExpr > 0 {
		if o.ReuseOptions {
			mo, ok := verifMaxExprOpts[o.MaxExpr]
			if !ok {
				mo = MaxExpressions(o.MaxExpr)
				verifMaxExprOpts[o.MaxExpr] = mo
			}
			opts = append(opts, mo)
		} else {
			opts = append(opts, MaxExpressions(o.MaxExpr))
		}
	}
	if o.Shuffle != 0 && !o.Overridden {
		parsersim.ShuffleOpts(len(opts), o.Shuffle, func(i, j int) { opts[i], opts[j] = opts[j], opts[i] })
	}
	if o.SpareCap {
		// the caller keeps its option lists in one array: this call's list is
		// followed by room (nil here) that belongs to the caller, not to Parse
		opts = append(make([]Option, 0, len(opts)+3), opts...)
	}
	defer func() {
		if e := recover(); e != nil {
			esc, val, err = e, nil, nil
		}
		if o.SpareCap {
			for _, x := range opts[len(opts):cap(opts)] {
				if x != nil {
					ctx.OptsModified = true
				}
			}
		}
%[7]s
	}()
	if o.UseFile {
		if !o.FilePrepared {
			verifPrepFile(filename, input)
		}
		val, err = ParseFile(filename, opts...)
	} else if o.UseReader {
		val, err = ParseReader(filename, bytes.NewReader(input), opts...)
	} else {
		val, err = Parse(filename, input, opts...)
	}
	return
}

func verifInspect(err error) (bool, []parsersim.ErrElem) {
	el, ok := err.(errList)
	if !ok {
		return false, nil
	}
	var out []parsersim.ErrElem
	for _, e := range el {
		x := parsersim.ErrElem{Msg: e.Error()}
		if pe, ok := e.(*parserError); ok {
			x.IsParserError = true
			x.Inner = pe.Inner
		}
		out = append(out, x)
	}
	return true, out
}
`

func (gp *genParser) glue() string {
	gj, _ := json.Marshal(gp.G)
	var optCode, deferCode string
	if gp.Has["Statistics"] {
		optCode += "\tvar st Stats\n\tst.ExprCnt = o.StatsCarry\n\tif o.Stats {\n\t\tctx.Tick = &st.ExprCnt\n\t\topts = append(opts, Statistics(&st, \"no match\"))\n\t}\n"
		deferCode = "\t\tcnt = st.ExprCnt\n\t\tif o.Stats {\n\t\t\tctx.StatsDigest = parsersim.DigestChoiceStats(st.ChoiceAltCnt)\n\t\t}"
	}
	if gp.Has["Memoize"] {
		optCode += "\tif o.Memoize {\n\t\topts = append(opts, Memoize(true))\n\t}\n"
	}
	if gp.Has["Debug"] {
		optCode += "\tif o.Debug {\n\t\topts = append(opts, Debug(true))\n\t}\n"
	}
	if gp.Has["InitState"] {
		optCode += "\tfor _, kv := range o.InitState {\n\t\topts = append(opts, InitState(kv[0], kernel.InitVal(kv[1])))\n\t}\n"
	}
	has := "map[string]bool{"
	for _, k := range []string{"Statistics", "Memoize", "Debug", "InitState"} {
		has += fmt.Sprintf("%q: %v, ", k, gp.Has[k])
	}
	has += "}"
	gvar := gp.GrammarVar
	if gvar == "" {
		gvar = "nil"
	}
	return fmt.Sprintf(glueTemplate, gp.Name, strconv.Quote(string(gj)), strconv.Quote(gp.Text), fmt.Sprintf("%#v", append([]string{}, gp.Flags...)), has, optCode, deferCode, gvar)
}

// buildParserWorld generates, instruments and links the given parsers.
func buildParserWorld(scratch, pigeonBin string, specs []*genParser, race bool) *parserWorld {
	os.MkdirAll(filepath.Join(scratch, "pf"), 0o755)
	os.Setenv("VERIF_PF_DIR", filepath.Join(scratch, "pf"))
	dir := filepath.Join(scratch, "pw")
	if race {
		dir = filepath.Join(scratch, "pw-race")
	}
	os.MkdirAll(dir, 0o755)
	gomod := "module pw\n\ngo 1.25.0\n\nrequire verifsim v0.0.0\n\nrequire (\n\tgolang.org/x/mod v0.36.0 // indirect\n\tgolang.org/x/sync v0.20.0 // indirect\n\tgolang.org/x/tools v0.45.0 // indirect\n)\n\nreplace verifsim => " + filepath.Join(verifDir, "sim") + "\n"
	must(os.WriteFile(filepath.Join(dir, "go.mod"), []byte(gomod), 0o644))
	sum, err := os.ReadFile(filepath.Join(verifDir, "sim", "go.sum"))
	if err == nil {
		must(os.WriteFile(filepath.Join(dir, "go.sum"), sum, 0o644))
	}
	// 1. generate with the real pigeon binary
	var wg sync.WaitGroup
	sem := make(chan struct{}, workers())
	for _, gp := range specs {
		wg.Add(1)
		go func(gp *genParser) {
			defer wg.Done()
			sem <- struct{}{}
			defer func() { <-sem }()
			pdir := filepath.Join(dir, gp.Name)
			os.MkdirAll(pdir, 0o755)
			must(os.WriteFile(filepath.Join(pdir, "g.peg"), []byte(gp.Text), 0o644))
			args := append(append([]string{}, gp.Flags...), "-o", filepath.Join(pdir, "g.go"), filepath.Join(pdir, "g.peg"))
			out, err := run(pdir, 60*time.Second, pigeonBin, args...)
			if err != nil {
				gp.Rejected = strings.TrimSpace(out) + " " + err.Error()
				os.RemoveAll(pdir)
				return
			}
			src, err := os.ReadFile(filepath.Join(pdir, "g.go"))
			if err != nil {
				gp.Rejected = err.Error()
				os.RemoveAll(pdir)
				return
			}
			if m := grammarVarRe.FindSubmatch(src); m != nil {
				gp.GrammarVar = string(m[1])
			}
			gp.Has = map[string]bool{}
			for _, f := range []string{"Statistics", "Memoize", "Debug", "InitState"} {
				gp.Has[f] = strings.Contains(string(src), "\nfunc "+f+"(")
			}
			must(os.WriteFile(filepath.Join(pdir, "verif_glue.go"), []byte(gp.glue()), 0o644))
		}(gp)
	}
	wg.Wait()
	var ok []*genParser
	rejected := 0
	for _, gp := range specs {
		if gp.Rejected == "" {
			ok = append(ok, gp)
		} else {
			rejected++
			if rejected <= 3 {
				fmt.Printf("NOTE: pigeon rejected generated grammar %s: %s\n", gp.Name, head(gp.Rejected, 300))
			}
		}
	}
	if len(ok) == 0 || rejected*4 > len(specs) {
		fatalHarness("pigeon rejected %d of %d generated grammars; the generator and the tool disagree about what is valid", rejected, len(specs))
	}
	// 2. main package, 3. instrument. A generated parser that does not compile is
	// the tool's defect, not this harness's and not these properties' subject:
	// such parsers are left out, loudly; trouble in the glue is ours and fatal.
	var res *rewrite.Result
	for attempt := 0; ; attempt++ {
		var b strings.Builder
		b.WriteString("package main\n\nimport (\n\t\"verifsim/parsersim\"\n")
		for _, gp := range ok {
			fmt.Fprintf(&b, "\t_ \"pw/%s\"\n", gp.Name)
		}
		b.WriteString(")\n\nfunc main() { parsersim.Serve() }\n")
		must(os.WriteFile(filepath.Join(dir, "main.go"), []byte(b.String()), 0o644))
		pats := make([]string, 0, len(ok))
		for _, gp := range ok {
			pats = append(pats, "./"+gp.Name)
		}
		var err error
		res, err = rewrite.Packages(dir, rewrite.Options{MapOrder: true, SyncSeam: true, ChanSeam: true, Steps: true, PrintSink: true, SkipPrefix: "verif_"}, pats...)
		if err == nil {
			break
		}
		msg := err.Error()
		if attempt > 0 || !strings.Contains(msg, "type errors before rewriting") || strings.Contains(msg, "verif_glue.go") {
			fatalHarness("parser-world rewrite: %v", err)
		}
		bad := map[string]string{}
		for _, m := range regexp.MustCompile(`(p\d+)/g\.go:\d+:\d+: ([^;]*)`).FindAllStringSubmatch(msg, -1) {
			if _, dup := bad[m[1]]; !dup {
				bad[m[1]] = m[2]
			}
		}
		var keep []*genParser
		shown := 0
		for _, gp := range ok {
			if why, isBad := bad[gp.Name]; isBad {
				if shown < 3 {
					fmt.Printf("NOTE: the parser pigeon generated for %s does not compile (%s); left out. Flags %v, grammar:\n%s\n", gp.Name, why, gp.Flags, head(gp.Text, 400))
					shown++
				}
				os.RemoveAll(filepath.Join(dir, gp.Name))
				continue
			}
			keep = append(keep, gp)
		}
		fmt.Printf("NOTE: %d of %d generated parsers do not compile and were left out of this run\n", len(ok)-len(keep), len(ok))
		notCompiling += len(ok) - len(keep)
		if len(bad) == 0 || len(keep) == 0 {
			fatalHarness("parser-world rewrite: %v", err)
		}
		ok = keep
	}
	// 4. build
	bin := filepath.Join(scratch, "parsersim.bin")
	args := []string{"build", "-o", bin}
	if race {
		bin = filepath.Join(scratch, "parsersim-race.bin")
		args = []string{"build", "-race", "-o", bin}
	}
	out, err := run(dir, 15*time.Minute, "go", append(args, ".")...)
	if err != nil {
		fatalHarness("parser-world build failed: %v\n%s", err, tail(out, 3000))
	}
	return &parserWorld{dir: dir, bin: bin, race: race, parsers: ok, rewrite: res}
}

func must(err error) {
	if err != nil {
		fatalHarness("%v", err)
	}
}

// pcall sends one request to a worker and decodes the response.
func pcall(w *worker, req *parsersim.Request, timeout time.Duration) (*parsersim.Response, callStatus, string) {
	line, st, detail := w.call(req, timeout)
	if st != callOK {
		return nil, st, detail
	}
	var resp parsersim.Response
	if err := json.Unmarshal(line, &resp); err != nil {
		fatalHarness("bad response from parser driver: %v: %.300s", err, line)
	}
	if resp.Error != "" {
		fatalHarness("parser driver reported: %s", resp.Error)
	}
	return &resp, callOK, ""
}

package main

import (
	"fmt"
	"os"
)

func toolProbe(args []string) {
	sc := newScratch("probe")
	tw := buildToolWorld(sc)
	fmt.Printf("built %s\nrewrite: %s\n", tw.bin, mustJSON(tw.rewrite))
	if len(args) > 0 && args[0] == "keep" {
		scratchDirs = nil
		fmt.Println("kept", sc)
	}
	_ = os.Stdout
}

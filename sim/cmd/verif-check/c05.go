package main

import (
	"fmt"

	"verifsim/gen"
	"verifsim/parsersim"
)

// C05: backtracking rolls back the state store; globalStore is never rolled
// back. Parser world: simulated pool with a foreign user, injected backtrack
// points, misbehaving blocks; oracle = executable reference model.

var propC05 = &pProp{
	id:     "C05",
	level:  "exploration",
	rule:   "one evaluation = one simulated Parse call of a real generated parser that contains state blocks, under a simulated sync.Pool (recycle most-recent / oldest / random item, drop on Put, New despite pooled items, a foreign user that takes a pooled map, scribbles on it and later clears and returns it), with code predicates whose truth is drawn by the simulator (backtrack points after every state change), state blocks that set/delete keys and mutate Cloner values in place, and action/predicate blocks that misbehave by writing to the store; at every code-block event the store the block sees must equal the store of the executable reference model (functional store threaded through PEG evaluation) and the kernel's counter in globalStore must equal the number of blocks run so far; distinct_nontrivial = distinct (grammar, input, options) cases in which the store changed between two events of a compared run",
	assume: []string{"the reference model defines 'the store as it was' from doc.go: failure, & and ! return the incoming store; action and predicate writes are dropped; state-block operations persist in order; Cloner values are values", "a disagreement between model and parser about matching (different block, different action offset/text) is counted as unclaimed_divergence and decides nothing; it must be 0 on the unchanged tree", "Memoize is on in a quarter of the cases of parsers without left recursion: a memo hit replays position and value and runs no block, so it leaves the store alone (model and parser agree on that; whether memoisation *should* ignore the store is not C05's subject); left recursion only in directly left-recursive rules, whose seed growing the model implements"},
	bias:   specBias{nullableLoops: 18, leftRec: 15, states: 100, preds: 75, actions: 85, throws: 35, optimized: 40, display: 5, unicode: 30, stateBias: true, lrDirect: true, topLoop: 6},
	tier: func(tier string) pParams {
		if tier == "thorough" {
			return pParams{batches: 8, grammars: 500, inputs: 10, optSets: 3, extra: 6}
		}
		return pParams{grammars: 320, inputs: 6, optSets: 2, extra: 3}
	},
	accept: func(gp *genParser) bool { return gp.G.HasKind(gen.State) },
	extraSpecs: func(r *rng) []*genParser {
		// rules that reach each other (not in leading position): a bracketed list
		// whose items are values and whose values may be bracketed lists, the state
		// changing at the leaves. Whatever a parser works out per rule about "can
		// this change the state" is worked out while another rule is half done.
		lit := func(s string) *gen.Expr { return &gen.Expr{Kind: gen.Lit, Text: s} }
		ref := func(s string) *gen.Expr { return &gen.Expr{Kind: gen.Ref, Name: s} }
		seq := func(xs ...*gen.Expr) *gen.Expr { return &gen.Expr{Kind: gen.Seq, Subs: xs} }
		choice := func(xs ...*gen.Expr) *gen.Expr { return &gen.Expr{Kind: gen.Choice, Subs: xs} }
		act := func(x *gen.Expr) *gen.Expr { return &gen.Expr{Kind: gen.Action, Subs: []*gen.Expr{x}} }
		eof := func() *gen.Expr { return &gen.Expr{Kind: gen.Not, Subs: []*gen.Expr{{Kind: gen.Any}}} }
		leaf := func() *gen.Expr {
			return seq(&gen.Expr{Kind: gen.Class, Ranges: []rune{'a', 'c'}}, &gen.Expr{Kind: gen.State})
		}
		value := func() *gen.Rule {
			return &gen.Rule{Name: "Value", Expr: choice(act(seq(lit("("), ref("Items"), lit(")"))), leaf())}
		}
		items := func() *gen.Rule {
			return &gen.Rule{Name: "Items", Expr: choice(seq(ref("Value"), lit(","), ref("Items")), ref("Value"))}
		}
		g1 := &gen.Grammar{Rules: []*gen.Rule{{Name: "Start", Expr: act(seq(ref("Value"), eof()))}, value(), items()}}
		g2 := &gen.Grammar{Rules: []*gen.Rule{{Name: "Start", Expr: act(seq(ref("Items"), eof()))}, items(), value()}}
		g1.Finish()
		g2.Finish()
		return []*genParser{newGenParser("pnesta", g1, nil), newGenParser("pnestb", g2, nil), newGenParser("pnestc", g1, []string{"-optimize-parser"})}
	},
	mkReqs: func(r *rng, gp *genParser, p pParams) []*parsersim.Request {
		var reqs []*parsersim.Request
		for ii, in := range drawInputs(r, gp.G, p.inputs, 40) {
			for k := 0; k < p.optSets; k++ {
				o := drawOpts(r, gp, 0, 0)
				// memoisation replays a recorded result without running the blocks again;
				// the model does the same (a hit: no events, the store stays as it is).
				// Not together with left recursion, whose memo tables the model lacks.
				o.Memoize = gp.Has["Memoize"] && !gp.LeftRec && r.chance(1, 4)
				o.AllowInvalidUTF8 = false
				o.Recover = nil
				if gp.Has["InitState"] && r.chance(1, 2) {
					o.InitState = [][2]string{{"k0", "init"}}
					if r.chance(1, 2) {
						o.InitState = append(o.InitState, [2]string{"c1", "C:i1,i2"})
					}
					if r.chance(1, 3) {
						o.InitState = append(o.InitState, [2]string{"w0", "V:j1"})
					}
					if r.chance(1, 3) {
						o.InitState = append(o.InitState, [2]string{"m0", "M:q1"})
					}
					if r.chance(1, 4) {
						o.InitState = append(o.InitState, [2]string{"c2", "CNIL"}) // "nothing open yet": a nil pointer of a Cloner type
					}
				}
				plan := drawPlan(r, true)
				plan.MisbehavePct = []int{0, 25, 60}[r.intn(3)]
				plan.ClonerPct = []int{0, 40, 70}[r.intn(3)]
				if r.chance(1, 5) {
					plan.NestedPct = 30
				}
				if r.chance(1, 2) {
					plan.ErrPct = 35 // blocks that also return errors (the store must not care)
				}
				reqs = append(reqs, &parsersim.Request{ID: fmt.Sprintf("c05-%s-i%d-o%d", gp.Name, ii, k), Kind: "c05", Parser: gp.Name,
					Call: parsersim.Call{Input: in, Opts: o, Plan: plan},
					Pool: drawPool(r, true), Seed: r.u64(), PoolRuns: p.extra, StepCap: 400000})
			}
		}
		if gp.G.IsTopLoop() {
			// a long parse: hundreds of rounds of state changes and backtracking
			// over one pool (many more savepoints alive and recycled than in a
			// short parse)
			o := drawOpts(r, gp, 0, 0)
			o.Memoize, o.AllowInvalidUTF8, o.Recover, o.Debug = false, false, nil, false
			if gp.Has["InitState"] && r.chance(1, 2) {
				o.InitState = [][2]string{{"k0", "init"}, {"c1", "C:i1,i2"}}
			}
			plan := drawPlan(r, true)
			plan.MaxEvents = 6000
			plan.MisbehavePct = []int{0, 25, 60}[r.intn(3)]
			plan.ClonerPct = []int{0, 40, 70}[r.intn(3)]
			reqs = append(reqs, &parsersim.Request{ID: fmt.Sprintf("c05-%s-long", gp.Name), Kind: "c05", Parser: gp.Name,
				Call: parsersim.Call{Input: gp.G.SampleLongInput(r2{r}, []int{150, 400, 900}[r.intn(3)]), Opts: o, Plan: plan},
				Pool: drawPool(r, true), Seed: r.u64(), PoolRuns: 2, StepCap: 40000000})
		}
		return reqs
	},
	nontriv: func(o *parsersim.Response) bool {
		return o.Stats["runs_with_state_changes"] > 0 && o.Stats["runs_compared_to_end"] > 0
	},
	faults: func(st map[string]int) map[string]int {
		out := map[string]int{}
		for k, v := range st {
			if len(k) > 5 && k[:5] == "pool_" {
				out[k] = v
			}
		}
		return out
	},
}

func runC05(tier string) int { return runParserProp(propC05, tier) }

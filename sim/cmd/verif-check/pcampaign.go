package main

import (
	"encoding/json"
	"fmt"
	"sort"
	"strings"
	"time"

	"verifsim/gen"
	"verifsim/kernel"
	"verifsim/parsersim"
	"verifsim/simsync"
)

// pOutcome is the parent's view of one parser-world case.
type pOutcome struct {
	Status string // ok, hang, crash
	Detail string
	Resp   *parsersim.Response
}

// runParserCases executes the requests on the worker pool (one persistent
// child per worker; every request is self-contained).
func runParserCases(pw *parserWorld, reqs []*parsersim.Request, timeout time.Duration, env []string, restartEvery int) []pOutcome {
	out := make([]pOutcome, len(reqs))
	parallel(len(reqs), workers(), pw.bin, env, func(i int, w *worker) {
		if restartEvery > 0 && w.calls > 0 && w.calls%restartEvery == 0 && w.cmd != nil {
			// a fresh process: package-level state of the parsers is cold again
			w.in.Close()
			w.kill()
		}
		w.calls++
		resp, st, detail := pcall(w, reqs[i], timeout)
		switch st {
		case callTimeout:
			out[i] = pOutcome{Status: "hang", Detail: headTail(detail, 500, 500)}
		case callCrashed:
			out[i] = pOutcome{Status: "crash", Detail: headTail(detail, 3000, 3000)}
		default:
			out[i] = pOutcome{Status: "ok", Resp: resp}
			for _, v := range resp.Violations {
				if v.Class == "deadlock" && w.cmd != nil {
					// clients that blocked each other stay parked in that process for
					// ever, together with whatever they hold: the next case gets a fresh one
					w.in.Close()
					w.kill()
					break
				}
			}
		}
	})
	return out
}

// parserReplay is the replay file body of parser-world violations.
type parserReplay struct {
	Grammar *gen.Grammar       `json:"grammar"`
	Text    string             `json:"grammar_text"`
	Flags   []string           `json:"flags"`
	Request *parsersim.Request `json:"request"`
	Race    bool               `json:"race,omitempty"`
	// FreshSolo: the violation is a difference between the concurrent run and the
	// calls run alone in another, fresh process.
	FreshSolo bool   `json:"fresh_solo,omitempty"`
	Expected  string `json:"expected_class"`
}

// drawPool draws a pool behaviour; most runs keep the pool ordinary.
func drawPool(r *rng, aggressive bool) simsync.PoolConfig {
	if !aggressive && r.chance(1, 3) {
		return simsync.PoolConfig{}
	}
	return simsync.PoolConfig{NewPct: r.intn(25), RandomPct: r.intn(50), FIFOPct: r.intn(30), DropPct: r.intn(15), ForeignPct: r.intn(25)}
}

func drawPlan(r *rng, stateful bool) kernel.Plan {
	p := kernel.Plan{Seed: r.u64(), PredTruePct: []int{50, 80, 20, 100, 65, 90, 100, 75}[r.intn(8)], StateKeys: 1 + r.intn(3), MaxEvents: 600}
	if stateful {
		p.ClonerPct = []int{0, 30, 60}[r.intn(3)]
	}
	p.NilValPct = []int{0, 0, 30, 60}[r.intn(4)]
	return p
}

// genParserSpec draws a grammar and generation flags for the parser world.
type specBias struct {
	nullableLoops int // chance out of 100
	leftRec       int
	states        int
	preds         int
	actions       int
	throws        int
	optimized     int
	display       int
	stateBias     bool
	unicode       int
	lrDirect      bool
	bigClasses    int // chance out of 100 (0: a third)
	topLoop       int // chance out of 100 of a grammar for long parses (gen.Config.TopLoop)
	deepNest      int // chance out of 100 of a grammar for deeply nested parses (gen.Config.DeepNest)
	uniNames      int // chance out of 100 of rule names outside ASCII
	optGrammar    int // chance out of 100 of -optimize-grammar (rules inlined: code blocks are copied)
}

func drawSpec(r *rng, name string, b specBias) *genParser {
	for {
		lr := r.intn(100) < b.leftRec
		cfg := gen.Config{
			MaxRules: 1 + r.intn(5), MaxDepth: 1 + r.intn(4),
			Actions: r.intn(100) < b.actions, Preds: r.intn(100) < b.preds, States: r.intn(100) < b.states,
			Lookahead: r.chance(2, 3), Labels: r.chance(2, 3), Throws: r.intn(100) < b.throws, Fold: r.chance(1, 3),
			Unicode: r.intn(100) < b.unicode, AnyMatcher: r.chance(1, 2), Display: r.intn(100) < b.display,
			NullableLoops: r.intn(100) < b.nullableLoops, LeftRec: lr, LeftRecDirect: b.lrDirect, LeftRecRunnable: true, StateBias: b.stateBias,
			TopLoop:  !lr && b.topLoop > 0 && r.intn(100) < b.topLoop,
			UniNames: b.uniNames > 0 && r.intn(100) < b.uniNames,
			LongLits: r.chance(1, 3), BigClasses: r.intn(100) < map[bool]int{true: b.bigClasses, false: 33}[b.bigClasses > 0],
		}
		if !lr && !cfg.TopLoop && b.deepNest > 0 && r.intn(100) < b.deepNest {
			cfg.DeepNest = true
		}
		g := gen.Generate(r2{r}, cfg)
		if g == nil {
			continue
		}
		var flags []string
		if r.intn(100) < b.optimized {
			flags = append(flags, "-optimize-parser")
		}
		foldedUClass := false
		for _, rl := range g.Rules {
			gen.Walk(rl.Expr, func(e *gen.Expr) {
				if e.Kind == gen.Class && e.Fold && len(e.UClass) > 0 {
					foldedUClass = true
				}
			})
		}
		// (observation O6: with -optimize-basic-latin a case-insensitive class does
		// not fold ASCII letters into its \p classes - `[\p{Ll}]i` rejects "A" - so
		// the parser matches differently from the language definition the model
		// implements; that is another property's subject, such grammars are
		// generated without the flag)
		if r.chance(1, 3) && !foldedUClass {
			flags = append(flags, "-optimize-basic-latin")
		}
		if b.optGrammar > 0 && r.intn(100) < b.optGrammar {
			flags = append(flags, "-optimize-grammar")
		}
		if r.chance(1, 4) {
			flags = append(flags, "-nolint")
		}
		if lr || r.chance(1, 8) {
			flags = append(flags, "-support-left-recursion")
		}
		if r.chance(1, 10) {
			flags = append(flags, "-receiver-name", "cur")
		}
		return newGenParser(name, g, flags)
	}
}

// drawInputs makes inputs for a grammar: derivation-guided, mutated, random.
func drawInputs(r *rng, g *gen.Grammar, n, maxLen int) [][]byte {
	var out [][]byte
	seen := map[string]bool{}
	for tries := 0; len(out) < n && tries < 10*n; tries++ {
		var in []byte
		switch r.intn(6) {
		case 0, 1, 2:
			in = g.SampleInput(r2{r}, maxLen)
		case 3, 4:
			in = gen.Mutate(r2{r}, g.SampleInput(r2{r}, maxLen), maxLen)
		default:
			al := []string{"a", "b", "c", "\n", "é", "日", "A"}
			k := r.intn(8)
			for i := 0; i < k; i++ {
				in = append(in, al[r.intn(len(al))]...)
			}
		}
		if !seen[string(in)] {
			seen[string(in)] = true
			out = append(out, in)
		}
	}
	return out
}

func drawOpts(r *rng, gp *genParser, memoPct, recoverFalsePct int) parsersim.Opts {
	o := parsersim.Opts{Stats: true}
	if gp.Has["Memoize"] && r.intn(100) < memoPct {
		o.Memoize = true
	}
	if gp.Has["Debug"] && r.chance(1, 8) {
		o.Debug = true
	}
	if r.intn(100) < recoverFalsePct {
		f := false
		o.Recover = &f
	} else if r.chance(1, 4) {
		t := true
		o.Recover = &t
	}
	if r.chance(1, 5) {
		o.AllowInvalidUTF8 = true
	}
	if r.chance(1, 6) && len(gp.G.Rules) > 1 {
		o.Entrypoint = gp.G.Rules[r.intn(len(gp.G.Rules))].Name
		if contains(gp.Flags, "-optimize-grammar") {
			// only the first rule is certain to survive the optimizer
			o.Entrypoint = ""
		}
	}
	if r.chance(1, 6) {
		o.UseReader = true
	}
	if r.chance(1, 3) {
		o.Shuffle = r.u64() | 1
	}
	if r.chance(1, 3) {
		o.SpareCap = true
	}
	if r.chance(1, 5) {
		o.NoGlobalOpt = true
	}
	if r.chance(1, 6) {
		o.Overridden = true
		if n := len(gp.G.Rules); n > 1 && !contains(gp.Flags, "-optimize-grammar") {
			o.OverriddenEntry = gp.G.Rules[n-1].Name
			if o.OverriddenEntry == o.Entrypoint {
				o.OverriddenEntry = gp.G.Rules[0].Name
			}
		}
	}
	return o
}

// confirmAndMinimise re-runs a violating request alone in a fresh child,
// narrowed to the violating budget / fault set, then shrinks input and options
// while the same violation class persists.
func confirmAndMinimise(pw *parserWorld, req parsersim.Request, v parsersim.Violation, env []string) (*parsersim.Request, *parsersim.Violation) {
	narrow := req
	narrow.Full = false
	if len(v.Budgets) > 0 {
		narrow.Budgets = v.Budgets
	}
	if len(v.Carries) > 0 {
		narrow.Carries = v.Carries
	}
	if len(v.Choices) > 0 {
		// replay exactly the simulator decisions of the violating run
		narrow.UseReplay = true
		narrow.Replay = v.Choices
		narrow.PoolRuns = 1
	}
	if len(v.FaultSets) > 0 {
		narrow.FaultSets = v.FaultSets
	}
	try := func(rq *parsersim.Request) *parsersim.Violation {
		w := &worker{bin: pw.bin, env: env}
		defer func() {
			if w.cmd != nil {
				w.in.Close()
				w.kill()
			}
		}()
		resp, st, _ := pcall(w, rq, 60*time.Second)
		if st != callOK {
			return nil
		}
		for i := range resp.Violations {
			if resp.Violations[i].Class == v.Class {
				return &resp.Violations[i]
			}
		}
		return nil
	}
	got := try(&narrow)
	if got == nil {
		// try the unnarrowed request before giving up
		if got = try(&req); got == nil {
			return nil, nil
		}
		narrow = req
	}
	best := narrow
	deadline := time.Now().Add(40 * time.Second)
	// input: drop runes
	in := []rune(string(best.Call.Input))
	for i := 0; i < len(in) && time.Now().Before(deadline); {
		cand := append(append([]rune(nil), in[:i]...), in[i+1:]...)
		rq := best
		rq.Call.Input = []byte(string(cand))
		if x := try(&rq); x != nil {
			in, best, got = cand, rq, x
		} else {
			i++
		}
	}
	// concurrent cases: drop whole clients, then single calls
	if len(best.Clients) > 0 {
		for i := 0; i < len(best.Clients) && len(best.Clients) > 1 && time.Now().Before(deadline); {
			rq := best
			rq.Clients = append(append([][]parsersim.Call(nil), best.Clients[:i]...), best.Clients[i+1:]...)
			rq.UseReplay, rq.Replay = false, nil // another set of clients is another schedule space
			if x := try(&rq); x != nil {
				best, got = rq, x
			} else {
				i++
			}
		}
		for i := 0; i < len(best.Clients) && time.Now().Before(deadline); i++ {
			for j := 0; j < len(best.Clients[i]) && len(best.Clients[i]) > 1 && time.Now().Before(deadline); {
				rq := best
				cl := append([][]parsersim.Call(nil), best.Clients...)
				cl[i] = append(append([]parsersim.Call(nil), best.Clients[i][:j]...), best.Clients[i][j+1:]...)
				rq.Clients = cl
				rq.UseReplay, rq.Replay = false, nil
				if x := try(&rq); x != nil {
					best, got = rq, x
				} else {
					j++
				}
			}
		}
		if !best.UseReplay && len(got.Choices) > 0 {
			best.UseReplay, best.Replay = true, got.Choices
		}
	}
	// options toward defaults
	simpl := []func(*parsersim.Request){
		func(r *parsersim.Request) { r.Call.Opts.Debug = false },
		func(r *parsersim.Request) { r.Call.Opts.UseReader = false },
		func(r *parsersim.Request) { r.Call.Opts.AllowInvalidUTF8 = false },
		func(r *parsersim.Request) { r.Call.Opts.Entrypoint = "" },
		func(r *parsersim.Request) { r.Call.Opts.Memoize = false },
		func(r *parsersim.Request) {
			if len(r.Budgets) == 0 {
				r.Call.Opts.MaxExpr = 0
			}
		},
		func(r *parsersim.Request) { r.Call.Opts.SpareCap = false },
		func(r *parsersim.Request) { r.Call.Opts.NoGlobalOpt = false },
		func(r *parsersim.Request) { r.Call.Opts.Recover = nil },
		func(r *parsersim.Request) { r.Pool = simsync.PoolConfig{} },
		func(r *parsersim.Request) { r.Call.Plan.MisbehavePct = 0 },
		func(r *parsersim.Request) { r.Call.Plan.ClonerPct = 0 },
		func(r *parsersim.Request) { r.Call.Opts.InitState = nil },
	}
	for _, f := range simpl {
		if !time.Now().Before(deadline) {
			break
		}
		rq := best
		f(&rq)
		if b1, _ := json.Marshal(rq); string(b1) == string(mustJSON(best)) {
			continue
		}
		if x := try(&rq); x != nil {
			best, got = rq, x
		}
	}
	// single faults out of a set
	if len(best.FaultSets) == 1 && len(best.FaultSets[0]) > 1 {
		set := best.FaultSets[0]
		for i := 0; i < len(set) && time.Now().Before(deadline); {
			cand := append(append([]kernel.Fault(nil), set[:i]...), set[i+1:]...)
			rq := best
			rq.FaultSets = [][]kernel.Fault{cand}
			if x := try(&rq); x != nil {
				set, best, got = cand, rq, x
			} else {
				i++
			}
		}
	}
	// simulator decisions: replace by 0 (the ordinary choice) in shrinking chunks
	if best.UseReplay && len(best.Replay) > 0 {
		list := append([]int(nil), best.Replay...)
		for size := len(list); size >= 1 && time.Now().Before(deadline); size /= 2 {
			for lo := 0; lo < len(list) && time.Now().Before(deadline); lo += size {
				hi := lo + size
				if hi > len(list) {
					hi = len(list)
				}
				allZero := true
				for _, x := range list[lo:hi] {
					if x != 0 {
						allZero = false
					}
				}
				if allZero {
					continue
				}
				cand := append([]int(nil), list...)
				for i := lo; i < hi; i++ {
					cand[i] = 0
				}
				rq := best
				rq.Replay = cand
				if x := try(&rq); x != nil {
					list, best, got = cand, rq, x
				}
			}
		}
		// drop the all-zero tail (an exhausted list yields zeros anyway)
		for len(list) > 0 && list[len(list)-1] == 0 {
			list = list[:len(list)-1]
		}
		best.Replay = list
	}
	best.Full = true
	return &best, got
}

// summariseStats adds the per-case stats maps.
func summariseStats(outs []pOutcome) map[string]int {
	tot := map[string]int{}
	for _, o := range outs {
		if o.Resp == nil {
			continue
		}
		for k, v := range o.Resp.Stats {
			if strings.HasPrefix(k, "max_") {
				if v > tot[k] {
					tot[k] = v
				}
			} else {
				tot[k] += v
			}
		}
	}
	return tot
}

func sortedKeys(m map[string]int) []string {
	k := make([]string, 0, len(m))
	for s := range m {
		k = append(k, s)
	}
	sort.Strings(k)
	return k
}

func specSummary(gp *genParser) map[string]any {
	return map[string]any{"parser": gp.Name, "flags": gp.Flags, "grammar": gp.Text[strings.Index(gp.Text, "}")+1:]}
}

var _ = fmt.Sprint

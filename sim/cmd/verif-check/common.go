package main

import (
	"bufio"
	"crypto/sha256"
	"encoding/hex"
	"encoding/json"
	"fmt"
	"os"
	"path/filepath"
	"sort"
	"strings"
	"time"
	"verifsim/tooldriver"
)

// finding is one line of /verif/known_findings.jsonl.
type finding struct {
	Property string            `json:"property"`
	ID       string            `json:"id"`
	Status   string            `json:"status"` // known | fixed
	Match    map[string]string `json:"match"`  // all given keys must match the violation's attributes
	What     string            `json:"what"`
	Commit   string            `json:"commit,omitempty"`
}

func loadFindings(prop string) []finding {
	f, err := os.Open(filepath.Join(verifDir, "known_findings.jsonl"))
	if err != nil {
		return nil
	}
	defer f.Close()
	var out []finding
	sc := bufio.NewScanner(f)
	sc.Buffer(make([]byte, 1<<20), 1<<20)
	for sc.Scan() {
		line := strings.TrimSpace(sc.Text())
		if line == "" || strings.HasPrefix(line, "#") {
			continue
		}
		var fd finding
		if err := json.Unmarshal([]byte(line), &fd); err != nil {
			fatalHarness("known_findings.jsonl: %v", err)
		}
		if fd.Property == prop && fd.Status == "known" {
			out = append(out, fd)
		}
	}
	return out
}

// violation is a detected breach of a property.
type violation struct {
	Property string            `json:"property"`
	Class    string            `json:"class"`
	Message  string            `json:"message"`
	Attrs    map[string]string `json:"attrs"` // what known findings are matched against
	Seed     uint64            `json:"seed"`
	Case     string            `json:"case"`
	Replay   any               `json:"replay"`
	Kind     string            `json:"kind"` // replay kind understood by `verif-check replay`
}

func (v *violation) matches(f finding) bool {
	if len(f.Match) == 0 {
		return false
	}
	for k, want := range f.Match {
		got, ok := v.Attrs[k]
		if !ok {
			return false
		}
		if strings.HasPrefix(want, "~") {
			if !strings.Contains(got, want[1:]) {
				return false
			}
		} else if got != want {
			return false
		}
	}
	return true
}

// reporter collects violations, applies the known-findings list and prints
// the lines the interface requires.
type reporter struct {
	prop     string
	findings []finding
	known    map[string]int
	fresh    []*violation
	nfile    int
	tag      string // distinguishes replay files of several passes of one check
}

func newReporter(prop string) *reporter {
	return &reporter{prop: prop, findings: loadFindings(prop), known: map[string]int{}}
}

// classify returns the id of the known finding the violation falls under, or "".
func (r *reporter) classify(v *violation) string {
	for _, f := range r.findings {
		if v.matches(f) {
			return f.ID
		}
	}
	return ""
}

func (r *reporter) add(v *violation) {
	if id := r.classify(v); id != "" {
		r.known[id]++
		return
	}
	r.fresh = append(r.fresh, v)
}

// finish writes replay files, prints KNOWN-FINDING / VIOLATION lines and
// returns the process exit status.
func (r *reporter) finish() int {
	ids := make([]string, 0, len(r.known))
	for id := range r.known {
		ids = append(ids, id)
	}
	sort.Strings(ids)
	for _, id := range ids {
		for _, f := range r.findings {
			if f.ID == id {
				fmt.Printf("KNOWN-FINDING: property=%s %s: %s (seen %d times in this run)\n", r.prop, f.ID, f.What, r.known[id])
			}
		}
	}
	if len(r.fresh) == 0 {
		return 0
	}
	os.MkdirAll(filepath.Join(outDir, "replays"), 0o755)
	seen := map[string]bool{}
	for _, v := range r.fresh {
		key := v.Class + "|" + v.Attrs["dedupe"]
		if seen[key] && len(seen) >= 1 && v.Attrs["dedupe"] != "" {
			continue
		}
		seen[key] = true
		r.nfile++
		if r.nfile > 10 {
			break
		}
		p := filepath.Join(outDir, "replays", fmt.Sprintf("%s%s-%d-%d.json", r.prop, r.tag, v.Seed, r.nfile))
		b, _ := json.MarshalIndent(v, "", " ")
		if err := os.WriteFile(p, b, 0o644); err != nil {
			fatalHarness("write replay: %v", err)
		}
		fmt.Printf("VIOLATION property=%s replay=%s\n", r.prop, p)
		fmt.Printf("  class=%s %s\n", v.Class, firstLine(v.Message))
	}
	return 1
}

// evidence mirrors EVIDENCE.schema.json.
type evidence struct {
	PropertyID  string         `json:"property_id"`
	Tier        string         `json:"tier"`
	Seed        int64          `json:"seed"`
	Level       string         `json:"level"`
	Coverage    map[string]any `json:"coverage"`
	Assumptions []string       `json:"assumptions"`
	WallS       float64        `json:"wall_s"`
	Violations  int            `json:"violations"`
}

func writeEvidence(e *evidence) {
	os.MkdirAll(filepath.Join(outDir, "evidence"), 0o755)
	b, _ := json.MarshalIndent(e, "", " ")
	p := filepath.Join(outDir, "evidence", e.PropertyID+".json")
	if err := os.WriteFile(p, append(b, '\n'), 0o644); err != nil {
		fatalHarness("write evidence: %v", err)
	}
}

func since(t time.Time) float64 { return float64(time.Since(t).Milliseconds()) / 1000 }

func perHour(n int, wall float64) int {
	if wall <= 0 {
		return 0
	}
	return int(float64(n) * 3600 / wall)
}

func sum(b []byte) tooldriver.FileSum {
	h := sha256.Sum256(b)
	return tooldriver.FileSum{Len: len(b), SHA: hex.EncodeToString(h[:8])}
}

func readEvidence(id string) *evidence {
	b, err := os.ReadFile(filepath.Join(outDir, "evidence", id+".json"))
	if err != nil {
		return nil
	}
	var e evidence
	if json.Unmarshal(b, &e) != nil {
		return nil
	}
	return &e
}

// mergeEvidence writes one evidence file for a check that ran two passes
// (plain build and race build): counts are added, the second pass's details
// are kept under "race_pass".
func mergeEvidence(id string, a, b *evidence) {
	if a == nil || b == nil {
		return
	}
	num := func(m map[string]any, k string) int {
		switch v := m[k].(type) {
		case float64:
			return int(v)
		case int:
			return v
		}
		return 0
	}
	out := *a
	out.WallS = a.WallS + b.WallS
	out.Violations = a.Violations + b.Violations
	cov := map[string]any{}
	for k, v := range a.Coverage {
		cov[k] = v
	}
	cov["evaluations"] = num(a.Coverage, "evaluations") + num(b.Coverage, "evaluations")
	cov["distinct_nontrivial"] = num(a.Coverage, "distinct_nontrivial") + num(b.Coverage, "distinct_nontrivial")
	cov["cases"] = num(a.Coverage, "cases") + num(b.Coverage, "cases")
	cov["plain_pass"] = map[string]any{"cases": a.Coverage["cases"], "stats": a.Coverage["stats"], "evaluations": a.Coverage["evaluations"], "distinct_interleavings": a.Coverage["distinct_nontrivial"], "wall_s": a.WallS}
	cov["race_pass"] = map[string]any{"cases": b.Coverage["cases"], "stats": b.Coverage["stats"], "evaluations": b.Coverage["evaluations"], "distinct_interleavings": b.Coverage["distinct_nontrivial"], "wall_s": b.WallS, "race_build": true}
	cov["grammars"] = num(a.Coverage, "grammars") + num(b.Coverage, "grammars")
	cov["race_build"] = "both: a plain pass and a pass under go build -race"
	cov["runs_per_hour"] = perHour(num(cov, "evaluations"), out.WallS)
	out.Coverage = cov
	writeEvidence(&out)
}

package main

import (
	"fmt"
	"verifsim/gen"
	"verifsim/kernel"

	"verifsim/parsersim"
)

// C16: MaxExpressions bounds every parse. Parser world; the budget is a
// logical deadline injected at every expression tick of a recorded execution.

var propC16 = &pProp{
	id:        "C16",
	clockTwin: true,
	level:     "fault_enumeration",
	rule:      "one evaluation = one simulated Parse call of a real generated parser (kernel code blocks incl. re-entrant parses, simulated pool); per (grammar, input, option set) case the un-cancelled execution is recorded under a large budget and then re-executed with MaxExpressions(n) for every n in [1, N+1] (N = expressions of the reference; sampled above the enumeration bound), each bounded run being compared with the reference: identical when the budget suffices, otherwise nil value, the budget error last, earlier errors a prefix, history exactly the reference events up to tick n, ExprCnt <= n+1, and return within (n+2)*C(G) instrumentation steps; plus runs with a reused Stats value whose count is already beyond the budget; distinct_nontrivial = distinct (grammar, input, options) cases in which at least one bounded run was executed",
	assume:    []string{"ExprCnt as reported through the Statistics option is the parser's clock; when the caller passes no Statistics the ticks are calibrated by a twin run that only adds that option; variants without Statistics (-optimize-parser) take their ticks from the same grammar generated without that flag when the two produce the same history (otherwise: prefix/monotonicity and the one-expression-per-code-block bound only)", "C(G) = 400 + 8*(widest expression) + 40*(state keys+4) steps per expression is generous: the largest observed ratio is reported as max_steps_per_expr"},
	bias:      specBias{nullableLoops: 55, leftRec: 12, states: 45, preds: 60, actions: 80, throws: 30, optimized: 30, display: 10, unicode: 40, topLoop: 5},
	tier: func(tier string) pParams {
		if tier == "thorough" {
			return pParams{batches: 6, grammars: 400, inputs: 8, optSets: 3, enumMax: 400}
		}
		return pParams{grammars: 224, inputs: 4, optSets: 2, enumMax: 160}
	},
	mkReqs: func(r *rng, gp *genParser, p pParams) []*parsersim.Request {
		var reqs []*parsersim.Request
		maxLen := 40
		for _, rl := range gp.G.Rules {
			gen.Walk(rl.Expr, func(e *gen.Expr) {
				if e.Kind == gen.Lit && len(e.Text) >= 10 {
					maxLen = 240 // many bytes per expression: long inputs for few expressions
				}
			})
		}
		for ii, in := range drawInputs(r, gp.G, p.inputs, maxLen) {
			if r.chance(1, 4) {
				// bytes that are not UTF-8: every one adds an 'invalid encoding' error
				// unless AllowInvalidUTF8 is on; the budget error must still come last
				pos := r.intn(len(in) + 1)
				bad := [][]byte{{0xff}, {0xc3}, {0xe6, 0x97}, {0x80}, {0xed, 0xa0, 0x80}}[r.intn(5)]
				in = append(append(append([]byte(nil), in[:pos]...), bad...), in[pos:]...)
			}
			for k := 0; k < p.optSets; k++ {
				o := drawOpts(r, gp, 45, 12)
				if gp.Has["Debug"] && r.chance(1, 5) {
					o.Debug = true // what a debugging session adds must not get in the budget's way
				}
				if r.chance(1, 4) {
					o.UseReader = true // the input may be treated differently when it comes from a reader
				}
				if r.chance(1, 3) {
					o.Stats = false // the parser's own default Stats value is the clock
				}
				o.ReuseOptions = r.chance(1, 2)
				if r.chance(1, 7) {
					o.UseFile, o.UseReader = true, false // ParseFile is an entry point of its own
				}
				plan := drawPlan(r, gp.HasState)
				if r.chance(1, 3) {
					plan.NestedPct = 50
				}
				if r.chance(1, 6) && len(gp.G.Sites) > 0 {
					// a code block that panics: with Recover(false) the panic reaches the
					// caller, with or without a budget that is not exhausted
					plan.Faults = []kernel.Fault{{Site: 1 + r.intn(len(gp.G.Sites)), N: 1 + r.intn(2), Kind: []string{"panic-err", "panic-str"}[r.intn(2)]}}
				}
				reqs = append(reqs, &parsersim.Request{ID: fmt.Sprintf("c16-%s-i%d-o%d", gp.Name, ii, k), Kind: "c16", Parser: gp.Name,
					Call: parsersim.Call{Input: in, Opts: o, Plan: plan},
					Pool: drawPool(r, false), Seed: r.u64(), RefBudget: uint64(400 + r.intn(1200)), EnumMax: p.enumMax, TwinParser: gp.Twin})
			}
		}
		if gp.G.IsTopLoop() {
			// a long parse: tens of thousands of expressions, so that budgets (and
			// the counters behind them) pass 2^15 and 2^16
			o := drawOpts(r, gp, 30, 12)
			o.Debug = false
			plan := drawPlan(r, gp.HasState)
			plan.MaxEvents = 40000
			reqs = append(reqs, &parsersim.Request{ID: fmt.Sprintf("c16-%s-long", gp.Name), Kind: "c16", Parser: gp.Name,
				Call: parsersim.Call{Input: gp.G.SampleLongInput(r2{r}, []int{800, 2500, 5000}[r.intn(3)]), Opts: o, Plan: plan},
				Pool: drawPool(r, false), Seed: r.u64(), RefBudget: uint64(150000 + r.intn(200000)), EnumMax: 110, TwinParser: gp.Twin})
		}
		return reqs
	},
	attrs: func(gp *genParser, req *parsersim.Request, v *parsersim.Violation, attrs map[string]string) {
		attrs["nullable_loop"] = fmt.Sprint(gp.G.NullableLoops())
		// the runtime does not memoise inside left-recursive rules: a zero-width
		// loop there is charged to the budget also under Memoize(true)
		if gp.LeftRec {
			attrs["nullable_loop_in_memoised_rule"] = fmt.Sprint(gp.G.NullableLoopOutsideCycles())
		} else {
			attrs["nullable_loop_in_memoised_rule"] = fmt.Sprint(gp.G.NullableLoops())
		}
	},
	nontriv: func(o *parsersim.Response) bool { return o.Stats["bounded_runs"] > 0 },
	faults: func(st map[string]int) map[string]int {
		return map[string]int{"deadline_at_tick": st["bounded_runs"], "deadline_that_exhausted": st["exhausted_runs"], "reused_stats_beyond_budget": st["reused_stats_runs"], "reentrant_parse_in_action": st["reentrant_parses_in_reference_runs"]}
	},
}

func runC16(tier string) int { return runParserProp(propC16, tier) }

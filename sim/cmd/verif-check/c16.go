package main

import (
	"fmt"
	"strings"
	"time"

	"verifsim/parsersim"
)

// C16: MaxExpressions bounds every parse. Parser world; the budget is a
// logical deadline injected at every expression tick of a recorded execution.

type pParams struct {
	grammars int
	inputs   int
	optSets  int
	enumMax  int
}

func c16Tier(tier string) pParams {
	if tier == "thorough" {
		return pParams{grammars: 320, inputs: 8, optSets: 3, enumMax: 400}
	}
	return pParams{grammars: 32, inputs: 4, optSets: 2, enumMax: 160}
}

func runC16(tier string) int {
	start := time.Now()
	seed := envSeed()
	p := c16Tier(tier)
	sc := newScratch("c16")
	_, pigeon := buildPigeon(sc)
	r := newRng(seed, hashLabel("c16"))
	var specs []*genParser
	for i := 0; i < p.grammars; i++ {
		specs = append(specs, drawSpec(r, fmt.Sprintf("p%03d", i), specBias{nullableLoops: 55, leftRec: 12, states: 45, preds: 60, actions: 80, throws: 30, optimized: 30, display: 10, unicode: 40}))
	}
	pw := buildParserWorld(sc, pigeon, specs, false)
	rep := newReporter("C16")

	var reqs []*parsersim.Request
	var owner []*genParser
	for _, gp := range pw.parsers {
		ins := drawInputs(r, gp.G, p.inputs, 24)
		for ii, in := range ins {
			for k := 0; k < p.optSets; k++ {
				o := drawOpts(r, gp, 45, 12)
				o.UseReader = false
				req := &parsersim.Request{ID: fmt.Sprintf("c16-%s-i%d-o%d", gp.Name, ii, k), Kind: "c16", Parser: gp.Name,
					Call: parsersim.Call{Input: in, Opts: o, Plan: drawPlan(r, gp.HasState)},
					Pool: drawPool(r, false), Seed: r.u64(), RefBudget: uint64(400 + r.intn(1200)), EnumMax: p.enumMax}
				reqs = append(reqs, req)
				owner = append(owner, gp)
			}
		}
	}
	outs := runParserCases(pw, reqs, 120*time.Second, goEnv())

	runs, cases := 0, 0
	distinct := map[string]bool{}
	var samples []any
	nviol := 0
	for i, o := range outs {
		gp := owner[i]
		cases++
		if o.Status != "ok" {
			// the driver itself hung or died: the step cap should have prevented that
			v := &violation{Property: "C16", Class: "driver-" + o.Status, Message: fmt.Sprintf("the simulation child %s while running %s: %s", o.Status, reqs[i].ID, firstLine(lastFatal(o.Detail))),
				Attrs: map[string]string{"class": "driver-" + o.Status, "dedupe": "driver-" + o.Status}, Seed: seed, Case: reqs[i].ID, Kind: "parser",
				Replay: &parserReplay{Grammar: gp.G, Text: gp.Text, Flags: gp.Flags, Request: reqs[i], Expected: "driver-" + o.Status}}
			rep.add(v)
			continue
		}
		runs += o.Resp.Runs
		if o.Resp.Stats["bounded_runs"] > 0 {
			distinct[fmt.Sprintf("%s|%q|%v", gp.Text, reqs[i].Call.Input, reqs[i].Call.Opts)] = true
		}
		if len(samples) < 4 && i%(len(outs)/4+1) == 0 {
			samples = append(samples, map[string]any{"case": o.Resp.Sample, "grammar": specSummary(gp)["grammar"]})
		}
		seenClass := map[string]bool{}
		for _, v := range o.Resp.Violations {
			nviol++
			if seenClass[v.Class] {
				continue
			}
			seenClass[v.Class] = true
			attrs := v.Attrs
			if attrs == nil {
				attrs = map[string]string{}
			}
			attrs["nullable_loop"] = fmt.Sprint(gp.G.NullableLoops())
			attrs["dedupe"] = v.Class + "|" + attrs["memoize"] + "|" + attrs["recover"] + "|" + attrs["optimized"]
			pv := &violation{Property: "C16", Class: v.Class, Message: v.Msg, Attrs: attrs, Seed: seed, Case: reqs[i].ID, Kind: "parser"}
			if rep.classify(pv) == "" && len(rep.fresh) < 6 {
				// unknown: confirm alone, minimise
				mreq, mv := confirmAndMinimise(pw, *reqs[i], v, goEnv())
				if mreq == nil {
					fmt.Printf("NOTE: C16 %s in %s did not reproduce in a fresh process; dropped\n", v.Class, reqs[i].ID)
					continue
				}
				pv.Message = mv.Msg + fmt.Sprintf(" [grammar %s flags %v input %q opts %s]", strings.TrimSpace(specSummary(gp)["grammar"].(string)), gp.Flags, mreq.Call.Input, mustJSON(mreq.Call.Opts))
				pv.Replay = &parserReplay{Grammar: gp.G, Text: gp.Text, Flags: gp.Flags, Request: mreq, Expected: v.Class}
			} else {
				pv.Replay = &parserReplay{Grammar: gp.G, Text: gp.Text, Flags: gp.Flags, Request: reqs[i], Expected: v.Class}
			}
			rep.add(pv)
		}
	}
	stats := summariseStats(outs)
	wall := since(start)
	ev := &evidence{PropertyID: "C16", Tier: tier, Seed: int64(seed), Level: "fault_enumeration", WallS: wall, Violations: len(rep.fresh),
		Coverage: map[string]any{
			"evaluations":         runs,
			"distinct_nontrivial": len(distinct),
			"rule":                "one evaluation = one simulated Parse call of a real generated parser (kernel code blocks, simulated pool); per (grammar, input, option set) case the un-cancelled execution is recorded under a large budget and then re-executed with MaxExpressions(n) for every n in [1, N+1] (N = expressions of the reference; sampled above the enumeration bound), each bounded run being compared with the reference: identical when the budget suffices, otherwise nil value, the budget error last, earlier errors a prefix, history exactly the reference events up to tick n, ExprCnt <= n+1, and return within (n+2)*C(G) instrumentation steps; distinct_nontrivial = distinct (grammar, input, options) cases in which at least one bounded run was executed",
			"samples":             samples,
			"cases":               cases,
			"grammars":            len(pw.parsers),
			"stats":               stats,
			"simulated_time_ticks": stats["bounded_runs"],
			"runs_per_hour":       perHour(runs, wall),
			"fault_kinds":         map[string]int{"deadline_at_tick": stats["bounded_runs"], "exhausted": stats["exhausted_runs"]},
			"violations_before_dedup": nviol,
			"known_findings_seen": rep.known,
			"instrumentation":     map[string]any{"map_range_sites": len(pw.rewrite.Sites), "steps_inserted": pw.rewrite.Steps, "sync_imports_replaced": pw.rewrite.SyncImports},
			"components":          map[string]any{"real": []string{"pigeon (front-end, builder, goimports) generating each parser", "the complete generated parser runtime"}, "stub": []string{"user code blocks (kernel)", "sync.Pool (simsync)", "map iteration order (ascending)"}},
		},
		Assumptions: []string{"ExprCnt as reported through the Statistics option is the parser's clock; variants without Statistics (-optimize-parser) are checked with the prefix/monotonicity relation only", "C(G) = 400 + 8*(widest expression) + 40*(state keys+4) steps per expression is generous: the largest observed ratio is reported as max_steps_per_expr"},
	}
	writeEvidence(ev)
	code := rep.finish()
	fmt.Printf("C16 %s: %d grammars, %d cases, %d simulated parses, %d violations before dedup, %.1fs\n", tier, len(pw.parsers), cases, runs, nviol, wall)
	return code
}

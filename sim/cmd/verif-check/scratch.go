package main

import (
	"bytes"
	"encoding/json"
	"fmt"
	"os"
	"os/exec"
	"path/filepath"
	"strings"
	"time"

	"verifsim/rewrite"
)

// repoDir is /repo for every registered check. VERIF_REPO exists only so that
// seeded changes can be tried in parallel in scratch worktrees; output then
// goes to VERIF_OUT so that /verif/evidence is never written from a copy.
var repoDir = func() string {
	if d := os.Getenv("VERIF_REPO"); d != "" {
		return d
	}
	return "/repo"
}()

var outDir = func() string {
	if d := os.Getenv("VERIF_OUT"); d != "" {
		return d
	}
	if os.Getenv("VERIF_REPO") != "" {
		d, _ := os.MkdirTemp("", "verif-out-")
		return d
	}
	if d := os.Getenv("VERIF_DIR"); d != "" {
		return d
	}
	return "/verif"
}()

var verifDir = func() string {
	if d := os.Getenv("VERIF_DIR"); d != "" {
		return d
	}
	return "/verif"
}()

// harnessErr is a failure of the machinery itself (exit status 2, never a VIOLATION).
type harnessErr struct{ msg string }

func (e harnessErr) Error() string { return e.msg }

func fatalHarness(format string, a ...any) {
	fmt.Fprintf(os.Stderr, "HARNESS-ERROR: "+format+"\n", a...)
	cleanupAll()
	os.Exit(2)
}

var scratchDirs []string

func cleanupAll() {
	if os.Getenv("VERIF_KEEP") != "" {
		for _, d := range scratchDirs {
			fmt.Fprintln(os.Stderr, "kept scratch", d)
		}
		scratchDirs = nil
		return
	}
	for _, d := range scratchDirs {
		os.RemoveAll(d)
	}
	scratchDirs = nil
}

func goEnv() []string {
	env := os.Environ()
	out := env[:0:0]
	for _, e := range env {
		if strings.HasPrefix(e, "GOFLAGS=") || strings.HasPrefix(e, "GOPROXY=") ||
			strings.HasPrefix(e, "GOTOOLCHAIN=") || strings.HasPrefix(e, "GOSUMDB=") || strings.HasPrefix(e, "GORACE=") {
			continue
		}
		out = append(out, e)
	}
	out = append(out, "GOFLAGS=-mod=mod", "GOPROXY=off")
	return out
}

// scratchCache, when set, is a hard-link copy of the Go build cache inside the
// scratch directory. Every generated parser is a new package (about 1 MB of
// build cache each); building against the copy keeps those entries out of the
// real cache and they disappear with the scratch directory.
var scratchCache string

func useScratchCache(scratch string) {
	out, err := run("/", time.Minute, "go", "env", "GOCACHE")
	if err != nil {
		return
	}
	main := strings.TrimSpace(out)
	if main == "" || os.Getenv("VERIF_SHARED_CACHE") != "" {
		return
	}
	dst := filepath.Join(scratch, "gocache")
	if _, err := run("/", 5*time.Minute, "cp", "-al", main, dst); err != nil {
		os.RemoveAll(dst)
		return
	}
	scratchCache = dst
	os.Setenv("GOCACHE", dst) // also for go/packages inside the rewriter
}

func run(dir string, timeout time.Duration, name string, args ...string) (string, error) {
	cmd := exec.Command(name, args...)
	cmd.Dir = dir
	cmd.Env = goEnv()
	var buf bytes.Buffer
	cmd.Stdout = &buf
	cmd.Stderr = &buf
	if err := cmd.Start(); err != nil {
		return "", err
	}
	done := make(chan error, 1)
	go func() { done <- cmd.Wait() }()
	select {
	case err := <-done:
		return buf.String(), err
	case <-time.After(timeout):
		cmd.Process.Kill()
		<-done
		return buf.String(), fmt.Errorf("timeout after %v", timeout)
	}
}

// newScratch makes a scratch directory outside /repo and /verif.
func newScratch(tag string) string {
	base := os.Getenv("VERIF_SCRATCH")
	if base == "" {
		base = os.TempDir()
	}
	d, err := os.MkdirTemp(base, "verif-"+tag+"-")
	if err != nil {
		fatalHarness("mktemp: %v", err)
	}
	scratchDirs = append(scratchDirs, d)
	if scratchCache == "" {
		useScratchCache(d)
	}
	return d
}

// copyRepo copies /repo's working tree (not .git) into dst.
func copyRepo(dst string) {
	if err := os.MkdirAll(dst, 0o755); err != nil {
		fatalHarness("mkdir: %v", err)
	}
	out, err := run("/", 2*time.Minute, "rsync", "-a", "--exclude", ".git", "--exclude", "_out", repoDir+"/", dst+"/")
	if err != nil {
		fatalHarness("copy repo: %v\n%s", err, out)
	}
}

func addVerifsimToGoMod(dir string) {
	p := filepath.Join(dir, "go.mod")
	b, err := os.ReadFile(p)
	if err != nil {
		fatalHarness("go.mod: %v", err)
	}
	s := string(b) + "\nrequire verifsim v0.0.0\n\nreplace verifsim => " + filepath.Join(verifDir, "sim") + "\n"
	if err := os.WriteFile(p, []byte(s), 0o644); err != nil {
		fatalHarness("go.mod: %v", err)
	}
}

type toolWorld struct {
	dir     string // scratch copy of the repository, rewritten
	bin     string // the simulated tool (child driver)
	rewrite *rewrite.Result
}

// buildToolWorld copies the repository, applies the OS and map-order seams to
// packages main, ast and builder, adds the driver and builds the child binary.
func buildToolWorld(scratch string) *toolWorld {
	dir := filepath.Join(scratch, "toolsrc")
	copyRepo(dir)
	addVerifsimToGoMod(dir)
	res, err := rewrite.Packages(dir, rewrite.Options{MapOrder: true, OSSeam: true, RenameMain: "pigeonMain", Steps: true, TaskSeam: true}, ".", "./ast", "./builder")
	if err != nil {
		fatalHarness("tool-world rewrite: %v", err)
	}
	if !res.MainRenamed {
		fatalHarness("tool-world rewrite: no func main found in package main")
	}
	drv := toolDriverSource
	if err := os.WriteFile(filepath.Join(dir, "verif_driver_main.go"), []byte(drv), 0o644); err != nil {
		fatalHarness("%v", err)
	}
	bin := filepath.Join(scratch, "toolsim.bin")
	out, err := run(dir, 10*time.Minute, "go", "build", "-o", bin, ".")
	if err != nil {
		fatalHarness("tool-world build failed: %v\n%s", err, out)
	}
	return &toolWorld{dir: dir, bin: bin, rewrite: res}
}

// buildPigeon builds the unmodified pigeon binary from a scratch copy.
func buildPigeon(scratch string) (srcDir, bin string) {
	dir := filepath.Join(scratch, "src")
	copyRepo(dir)
	bin = filepath.Join(scratch, "pigeon.bin")
	out, err := run(dir, 10*time.Minute, "go", "build", "-o", bin, ".")
	if err != nil {
		fatalHarness("pigeon build failed: %v\n%s", err, out)
	}
	return dir, bin
}

func mustJSON(v any) []byte {
	b, err := json.Marshal(v)
	if err != nil {
		panic(err)
	}
	return b
}

// toolDriverSource is added to package main of the scratch copy. Besides
// serving main() it offers the library-style double build: parse once with
// the real front-end, optionally optimize, and call builder.BuildParser twice
// on the same grammar value (only documented, exported API is used).
const toolDriverSource = `package main

import (
	"bytes"
	"io"
	"strings"

	"github.com/mna/pigeon/ast"
	"github.com/mna/pigeon/builder"
	"verifsim/simtask"
	"verifsim/tooldriver"
)

func main() { tooldriver.Serve(pigeonMain, verifRebuild) }

func verifRebuild(c *tooldriver.Case, src []byte) (out1, out2 []byte, err1, err2 string) {
	var alt []string
	var opts []builder.Option
	optimize := false
	for i := 0; i < len(c.Args); i++ {
		switch c.Args[i] {
		case "-optimize-grammar":
			optimize = true
		case "-optimize-parser":
			opts = append(opts, builder.Optimize(true))
		case "-optimize-basic-latin":
			opts = append(opts, builder.BasicLatinLookupTable(true))
		case "-nolint":
			opts = append(opts, builder.Nolint(true))
		case "-support-left-recursion":
			opts = append(opts, builder.SupportLeftRecursion(true))
		case "-receiver-name":
			if i+1 < len(c.Args) {
				opts = append(opts, builder.ReceiverName(c.Args[i+1]))
				i++
			}
		case "-alternate-entrypoints":
			if i+1 < len(c.Args) {
				alt = strings.Split(c.Args[i+1], ",")
				i++
			}
		}
	}
	g, err := ParseReader("grammar.peg", bytes.NewReader(src))
	if err != nil {
		return nil, nil, err.Error(), err.Error()
	}
	gr := g.(*ast.Grammar)
	var b1, b2 bytes.Buffer
	if c.RebuildVariant == 2 && optimize {
		// built once as parsed, optimised afterwards, built again ...
		builder.BuildParser(io.Discard, gr, opts...)
		ast.Optimize(gr, alt...)
		if e := builder.BuildParser(&b1, gr, opts...); e != nil {
			err1 = e.Error()
		}
		// ... against: parsed, optimised, built
		g2, err := ParseReader("grammar.peg", bytes.NewReader(src))
		if err != nil {
			return nil, nil, err.Error(), err.Error()
		}
		gr2 := g2.(*ast.Grammar)
		ast.Optimize(gr2, alt...)
		if e := builder.BuildParser(&b2, gr2, opts...); e != nil {
			err2 = e.Error()
		}
		return b1.Bytes(), b2.Bytes(), err1, err2
	}
	if c.RebuildVariant == 3 {
		// two builds at the same time in one process (a program that generates
		// several parsers from goroutines), each from its own grammar value and
		// with its own options: the second toggles the template variant. Both are
		// tasks of the seeded scheduler, preempted at instrumentation steps. What
		// the first one emits must be what it emits alone.
		g2, err := ParseReader("grammar.peg", bytes.NewReader(src))
		if err != nil {
			return nil, nil, err.Error(), err.Error()
		}
		gr2 := g2.(*ast.Grammar)
		if optimize {
			ast.Optimize(gr, alt...)
			ast.Optimize(gr2, alt...)
		}
		opts2 := append(append([]builder.Option(nil), opts...), builder.Optimize(!strings.Contains(strings.Join(c.Args, " "), "-optimize-parser")), builder.ReceiverName("other"))
		done := false
		var other bytes.Buffer
		simtask.Go(func() {
			defer func() { done = true }()
			builder.BuildParser(&other, gr2, opts2...)
		})
		if e := builder.BuildParser(&b1, gr, opts...); e != nil {
			err1 = e.Error()
		}
		for !done {
			simtask.Yield()
		}
		// ... against the same build made alone
		g3, err := ParseReader("grammar.peg", bytes.NewReader(src))
		if err != nil {
			return nil, nil, err.Error(), err.Error()
		}
		gr3 := g3.(*ast.Grammar)
		if optimize {
			ast.Optimize(gr3, alt...)
		}
		if e := builder.BuildParser(&b2, gr3, opts...); e != nil {
			err2 = e.Error()
		}
		return b1.Bytes(), b2.Bytes(), err1, err2
	}
	if optimize {
		ast.Optimize(gr, alt...)
	}
	if c.RebuildVariant == 1 {
		// a build whose destination fails part-way: whatever it leaves behind in
		// this process must not show in the builds that follow
		builder.BuildParser(&tooldriver.FailingWriter{N: c.RebuildFailAt}, gr, opts...)
	}
	if e := builder.BuildParser(&b1, gr, opts...); e != nil {
		err1 = e.Error()
	}
	if e := builder.BuildParser(&b2, gr, opts...); e != nil {
		err2 = e.Error()
	}
	return b1.Bytes(), b2.Bytes(), err1, err2
}
`

package main

import (
	"encoding/json"
	"fmt"
)

func replayOther(sc, path, prop, kind, class string, raw json.RawMessage) int {
	switch kind {
	case "c13":
		var rp c13Replay
		if err := json.Unmarshal(raw, &rp); err != nil {
			fatalHarness("replay: %v", err)
		}
		tw := buildToolWorld(sc)
		cl, msg := replayC13(tw, &rp)
		if cl != "" {
			fmt.Printf("VIOLATION property=%s replay=%s\n  reproduced: class=%s %s\n", prop, path, cl, msg)
			return 1
		}
		fmt.Printf("replay %s: not reproduced\n", path)
		return 0
	}
	fatalHarness("replay: unknown kind %q", kind)
	return 2
}

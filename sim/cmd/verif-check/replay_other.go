package main

import "encoding/json"

func replayOther(sc, path, prop, kind, class string, raw json.RawMessage) int {
	fatalHarness("replay: unknown kind %q", kind)
	return 2
}

package main

import (
	"encoding/json"
	"fmt"
	"os"
	"strings"
	"time"
	"verifsim/parsersim"
)

func replayOther(sc, path, prop, kind, class string, raw json.RawMessage) int {
	switch kind {
	case "c13":
		var rp c13Replay
		if err := json.Unmarshal(raw, &rp); err != nil {
			fatalHarness("replay: %v", err)
		}
		tw := buildToolWorld(sc)
		cl, msg := replayC13(tw, &rp)
		if cl != "" {
			fmt.Printf("VIOLATION property=%s replay=%s\n  reproduced: class=%s %s\n", prop, path, cl, msg)
			return 1
		}
		fmt.Printf("replay %s: not reproduced\n", path)
		return 0
	case "parser":
		var rp parserReplay
		if err := json.Unmarshal(raw, &rp); err != nil {
			fatalHarness("replay: %v", err)
		}
		_, pigeon := buildPigeon(sc)
		gp := newGenParser(rp.Request.Parser, rp.Grammar, rp.Flags)
		if strings.TrimSpace(rp.Text) != "" {
			gp.Text = rp.Text
		}
		pw := buildParserWorld(sc, pigeon, []*genParser{gp}, rp.Race)
		env := goEnv()
		if rp.Race {
			env = append(env, "GORACE=halt_on_error=1 exitcode=66")
		}
		w := &worker{bin: pw.bin, env: env}
		defer func() {
			if w.cmd != nil {
				w.in.Close()
				w.kill()
			}
		}()
		if os.Getenv("VERIF_DUMP") != "" {
			// print the plain execution of the (faulted) call: events, errors, injections
			dr := *rp.Request
			dr.Kind = "run"
			if len(rp.Request.FaultSets) > 0 {
				dr.Call.Plan.Faults = rp.Request.FaultSets[0]
			}
			if len(rp.Request.Budgets) > 0 {
				dr.Call.Opts.MaxExpr = rp.Request.Budgets[0]
			}
			if dresp, dst, _ := pcall(w, &dr, 120*time.Second); dst == callOK && len(dresp.Results) > 0 {
				r := dresp.Results[0]
				fmt.Printf("DUMP value=%s err_nil=%v escaped=%s exprcnt=%d\n", r.Value, r.ErrNil, r.Escaped, r.ExprCnt)
				for _, e := range r.Events {
					fmt.Printf("DUMP event %s tick=%d\n", e.String(), e.Tick)
				}
				for i, e := range r.Errs {
					fmt.Printf("DUMP err[%d] %q inner=%q injected_idx=%d\n", i, e.Msg, e.InnerMsg, e.InjectedIdx)
				}
				for i, in := range r.Injected {
					fmt.Printf("DUMP injected[%d] seq=%d site=%d n=%d kind=%s msg=%s\n", i, in.Seq, in.Site, in.N, in.Kind, in.Msg)
				}
			}
		}
		resp, st, detail := pcall(w, rp.Request, 120*time.Second)
		if rp.FreshSolo && st == callOK {
			// every call alone in a process of its own, as in the check
			for ci := range rp.Request.Clients {
				for cj := range rp.Request.Clients[ci] {
					w2 := &worker{bin: pw.bin, env: env}
					sr := *rp.Request
					sr.Kind = "c18solo"
					sr.Clients = [][]parsersim.Call{{rp.Request.Clients[ci][cj]}}
					sresp, st2, _ := pcall(w2, &sr, 120*time.Second)
					if w2.cmd != nil {
						w2.in.Close()
						w2.kill()
					}
					if st2 != callOK || len(sresp.Digests) == 0 || len(sresp.Digests[0]) == 0 || ci >= len(resp.Digests) || cj >= len(resp.Digests[ci]) {
						continue
					}
					x, y := resp.Digests[ci][cj], sresp.Digests[0][0]
					if x != y && x != "capped" && y != "capped" && x != "lost" {
						fmt.Printf("VIOLATION property=%s replay=%s\n  reproduced: class=differs-from-fresh-solo client %d call %d returned something else in the concurrent run than alone in a fresh process\n", prop, path, ci, cj)
						return 1
					}
				}
			}
			fmt.Printf("replay %s: not reproduced (concurrent run and fresh-process solo runs agree)\n", path)
			return 0
		}
		if rp.Expected == "data-race" {
			// The schedule replays exactly, but the race detector keeps a bounded,
			// randomly evicted access history per memory word, so it can miss a race
			// it reported before (it never reports one that is not there). Repeat.
			for attempt := 1; attempt < 10 && st == callOK; attempt++ {
				w.in.Close()
				w.kill()
				resp, st, detail = pcall(w, rp.Request, 120*time.Second)
			}
		}
		if st != callOK {
			got := "driver-hang"
			if st == callCrashed {
				got = "driver-crash"
				if strings.Contains(detail, "DATA RACE") {
					got = "data-race"
				}
			}
			if got == rp.Expected || strings.HasPrefix(rp.Expected, "driver-") {
				fmt.Printf("VIOLATION property=%s replay=%s\n  reproduced: class=%s\n%s\n", prop, path, got, headTail(detail, 1500, 500))
				return 1
			}
			fmt.Printf("replay %s: the child ended with %s, expected class %s\n", path, got, rp.Expected)
			return 1
		}
		for _, v := range resp.Violations {
			if v.Class == rp.Expected {
				fmt.Printf("VIOLATION property=%s replay=%s\n  reproduced: class=%s %s\n", prop, path, v.Class, v.Msg)
				if len(v.Detail) > 0 {
					b, _ := json.MarshalIndent(v.Detail, "  ", " ")
					fmt.Printf("  %s\n", b)
				}
				return 1
			}
		}
		if len(resp.Violations) > 0 {
			fmt.Printf("VIOLATION property=%s replay=%s\n  a different class reproduced: %s %s\n", prop, path, resp.Violations[0].Class, resp.Violations[0].Msg)
			return 1
		}
		fmt.Printf("replay %s: not reproduced (%d simulated parses, no violation)\n", path, resp.Runs)
		return 0
	}
	fatalHarness("replay: unknown kind %q", kind)
	return 2
}

package main

import (
	"fmt"
	"os"
	"os/signal"
	"strconv"
	"syscall"
)

func envSeed() uint64 {
	s := os.Getenv("VERIF_SEED")
	if s == "" {
		return 1
	}
	v, err := strconv.ParseUint(s, 10, 64)
	if err != nil {
		iv, err2 := strconv.ParseInt(s, 10, 64)
		if err2 != nil {
			return hashLabel(s)
		}
		return uint64(iv)
	}
	return v
}

func tierArg() string {
	t := os.Getenv("VERIF_TIER")
	if len(os.Args) > 2 {
		t = os.Args[2]
	}
	if t != "thorough" {
		t = "quick"
	}
	return t
}

func usage() {
	fmt.Fprintln(os.Stderr, "usage: verif-check <C05|C11|C13|C16|C18|C19> <quick|thorough> | replay <file> | selftest")
	os.Exit(2)
}

func main() {
	if len(os.Args) < 2 {
		usage()
	}
	defer cleanupAll()
	sig := make(chan os.Signal, 1)
	signal.Notify(sig, syscall.SIGTERM, syscall.SIGINT, syscall.SIGHUP)
	go func() {
		<-sig
		fmt.Fprintln(os.Stderr, "HARNESS-ERROR: interrupted")
		cleanupAll()
		os.Exit(2)
	}()
	switch os.Args[1] {
	case "tool-probe":
		toolProbe(os.Args[2:])
	case "replay":
		if len(os.Args) < 3 {
			usage()
		}
		code := runReplay(os.Args[2])
		cleanupAll()
		os.Exit(code)
	case "C13":
		code := runC13(tierArg())
		cleanupAll()
		os.Exit(code)
	case "c13-input":
		// c13-input <tier> <index>: print one input of the C13 campaign (debugging aid)
		sc := newScratch("c13in")
		src, _ := buildPigeon(sc)
		idx := 0
		fmt.Sscan(os.Args[3], &idx)
		ins := c13Inputs(envSeed(), c13Tier(os.Args[2]), src)
		fmt.Printf("name=%s class=%s flags=%q attrs=%v\n%s\n", ins[idx].Name, ins[idx].Class, ins[idx].Flags, ins[idx].Attrs, ins[idx].Grammar)
		cleanupAll()
	case "dump-specs":
		r := newRng(envSeed(), hashLabel("c16"))
		for i := 0; i < 32; i++ {
			gp := drawSpec(r, fmt.Sprintf("p%03d", i), specBias{nullableLoops: 55, leftRec: 12, states: 45, preds: 60, actions: 80, throws: 30, optimized: 30, display: 10, unicode: 40})
			fmt.Printf("=== %s %v\n%s\n", gp.Name, gp.Flags, gp.Text)
		}
	case "selftest":
		code := runSelftest(os.Args[2:])
		cleanupAll()
		os.Exit(code)
	case "C05":
		code := runC05(tierArg())
		cleanupAll()
		os.Exit(code)
	case "C11":
		code := runC11(tierArg())
		cleanupAll()
		os.Exit(code)
	case "C16":
		code := runC16(tierArg())
		cleanupAll()
		os.Exit(code)
	case "C18":
		code := runC18(tierArg())
		cleanupAll()
		os.Exit(code)
	case "C19":
		code := runC19(tierArg())
		cleanupAll()
		os.Exit(code)
	default:
		usage()
	}
}

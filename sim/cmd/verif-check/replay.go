package main

import (
	"encoding/json"
	"fmt"
	"os"
)

// runReplay re-executes a replay file in fresh processes built from /repo's
// current tree. Exit 1 (and a VIOLATION line) when the violation reproduces.
func runReplay(path string) int {
	b, err := os.ReadFile(path)
	if err != nil {
		fatalHarness("replay: %v", err)
	}
	var v struct {
		Property string          `json:"property"`
		Class    string          `json:"class"`
		Kind     string          `json:"kind"`
		Replay   json.RawMessage `json:"replay"`
	}
	if err := json.Unmarshal(b, &v); err != nil {
		fatalHarness("replay: %v", err)
	}
	sc := newScratch("replay")
	switch v.Kind {
	case "c19":
		var rp c19Replay
		if err := json.Unmarshal(v.Replay, &rp); err != nil {
			fatalHarness("replay: %v", err)
		}
		tw := buildToolWorld(sc)
		bad, detail := replayC19(tw, &rp)
		if bad {
			fmt.Printf("VIOLATION property=%s replay=%s\n  reproduced: runs disagree:\n  %s\n", v.Property, path, detail)
			return 1
		}
		fmt.Printf("replay %s: not reproduced (all runs agree: %s)\n", path, detail)
		return 0
	default:
		return replayOther(sc, path, v.Property, v.Kind, v.Class, v.Replay)
	}
}

package main

import (
	"fmt"
	"os"
	"sort"
	"strings"
	"time"

	"verifsim/simmap"
	"verifsim/simos"
	"verifsim/tooldriver"
)

// C13: the tool is total, also when its I/O fails. Tool world, OS seam.

type c13Params struct {
	repoFlagSets int
	deep         int
	uclass       int
	lrrec        int
	placement    int
	big          []int // sizes of the big inputs
	manyerrs     int
	gen          int
	genFree      int
	mut          int
	bytes        int
	faultsPer    int // faulted variants per input
	sessionLen   int
	realBinary   int // cross-checks against the unmodified binary
}

func c13Tier(tier string) c13Params {
	if tier == "thorough" {
		return c13Params{repoFlagSets: 12, deep: 90, uclass: 400, lrrec: 200, placement: 4 * placementCount, big: []int{70 << 10, 300 << 10, 1<<20 + 4096}, manyerrs: 80, gen: 5000, genFree: 2500, mut: 9000, bytes: 2500, faultsPer: 6, sessionLen: 32, realBinary: 60}
	}
	if os.Getenv("VERIF_C13_BIG") != "" {
		// the quick tier with the largest input of the thorough tier (used when trying seeded changes)
		return c13Params{repoFlagSets: 1, deep: 2, uclass: 2, lrrec: 2, placement: 4, big: []int{1<<20 + 4096}, manyerrs: 2, gen: 10, genFree: 4, mut: 10, bytes: 4, faultsPer: 4, sessionLen: 24, realBinary: 2}
	}
	return c13Params{repoFlagSets: 1, deep: 12, uclass: 16, lrrec: lrShapeCount + 6, placement: placementCount, big: []int{70 << 10}, manyerrs: 8, gen: 70, genFree: 40, mut: 170, bytes: 30, faultsPer: 4, sessionLen: 24, realBinary: 12}
}

func c13Inputs(seed uint64, p c13Params, src string) []toolInput {
	var ins []toolInput
	r := newRng(seed, hashLabel("c13-inputs"))
	repo := repoGrammars(src)
	for _, g := range repo {
		for k := 0; k < p.repoFlagSets; k++ {
			in := g
			in.Flags = drawFlags(r, nil, strings.Contains(g.Name, "left_recursion") && r.chance(3, 4))
			ins = append(ins, in)
		}
	}
	for i := 0; i < p.gen; i++ {
		in, _ := genToolGrammar(r, r.chance(1, 6))
		in.Flags = drawFlags(r, in.Rules, in.Class == "genlr" && r.chance(1, 2))
		ins = append(ins, in)
	}
	for i := 0; i < p.genFree; i++ {
		in := genFreeRefGrammar(r)
		in.Flags = drawFlags(r, in.Rules, r.chance(1, 2))
		ins = append(ins, in)
	}
	base := len(ins)
	for i := 0; i < p.mut; i++ {
		src := ins[r.intn(base)]
		in := toolInput{Name: "mut(" + src.Name + ")", Class: "mut", Grammar: mutateGrammar(r, src.Grammar), Flags: src.Flags, Rules: src.Rules}
		if r.chance(1, 2) {
			in.Flags = drawFlags(r, src.Rules, false)
		}
		ins = append(ins, in)
	}
	for i := 0; i < p.mut/8; i++ {
		// the same texts with carriage returns before the line feeds
		ins = append(ins, crlfVariant(r, ins[r.intn(base)]))
	}
	for i := 0; i < p.deep; i++ {
		in := genDeepGrammar(r)
		// not with -optimize-grammar: inlining every reference is that option's
		// purpose, and on these shapes its *output* has 2^depth nodes (DESIGN 16.3, O4)
		in.Flags = removeArgs(drawFlags(r, in.Rules[:2], false), "-optimize-grammar", 1)
		if in.Name == "gennest" && r.chance(1, 2) && !contains(in.Flags, "-cache") {
			in.Flags = append([]string{"-cache"}, in.Flags...)
		}
		ins = append(ins, in)
	}
	for i := 0; i < p.uclass; i++ {
		// every spelling of a Unicode class name somebody might try: what the
		// front-end accepts, the builder and the emitted tables must know too
		names := []string{"L", "Lu", "Nd", "Latin", "Greek", "Han", "Zs", "Cn", "LC", "L&", "Letter", "Decimal_Number", "Lowercase_Letter", "Uppercase_Letter", "Titlecase_Letter", "Cased_Letter", "Mark", "Number", "Punctuation", "Symbol", "Separator", "Other", "punct", "digit", "alpha", "latin", "LATIN", "lu", "Any", "ASCII", "Assigned", "Cyrl", "Grek", "Hani", "Common", "Inherited", "Nope", "", "L u", "^L", "Lu}{Ll"}
		var cls strings.Builder
		for n := 1 + r.intn(2); n > 0; n-- {
			nm := names[r.intn(len(names))]
			if len(nm) == 1 && r.chance(1, 2) {
				cls.WriteString("\\p" + nm)
			} else {
				cls.WriteString("\\p{" + nm + "}")
			}
		}
		if r.chance(1, 4) {
			// a range that runs into a class escape
			cls.Reset()
			cls.WriteString(r.pick([]string{"a-\\pL", "a-\\p{Lu}", "0-9a-\\p{Nd}", "\\pL-z", "^a-\\pN", "a-\\pLz"}))
		}
		g := "A <- [" + cls.String() + "]" + r.pick([]string{"", "i", "+", "*"}) + " B\nB <- [a-z" + r.pick([]string{"", "\\p{L}", "\\pN"}) + "] / !.\n"
		if r.chance(1, 2) {
			g = "{\npackage gen\n}\n" + g
		}
		in := toolInput{Name: "uclass", Class: "uclass", Grammar: []byte(g), Rules: []string{"A", "B"}}
		in.Flags = drawFlags(r, in.Rules, false)
		if r.chance(1, 2) && !contains(in.Flags, "-optimize-basic-latin") {
			in.Flags = append(in.Flags, "-optimize-basic-latin")
		}
		ins = append(ins, in)
	}
	for _, h := range shortHeads {
		ins = append(ins, toolInput{Name: "head", Class: "bytes", Grammar: []byte(h), Flags: drawFlags(r, nil, false)})
	}
	for i := 0; i < p.placement; i++ {
		ins = append(ins, genPlacement(r, i))
	}
	// code blocks with //line directives and Go that does not parse: whatever the
	// tool says about the format error, the line numbers it is told are not
	// lines of anything it holds
	for _, g := range []string{
		"{\npackage p\n}\nA <- 'a' {\n//line big.go:100000\n\treturn nil nil\n}\n",
		"{\npackage p\n//line init.go:99999\nvar x =\n}\nA <- 'a'\n",
		"{\npackage p\n}\nA <- 'a' { /*line x.go:70000:1*/ return 1 2 }\n",
		"{\npackage p\n}\nA <- 'a' {\n//line :0\n\treturn (\n}\n",
		"{\npackage p\n}\nA <- 'a' {\n//line a.go:1\n\treturn nil, nil\n}\nB <- 'b' {\n//line b.go:4000000000\n\treturn ,\n}\n",
	} {
		ins = append(ins, toolInput{Name: "linedir", Class: "gen", Grammar: []byte(g), Rules: []string{"A"}, Flags: drawFlags(r, []string{"A"}, false)})
	}
	for i := 0; i < p.manyerrs; i++ {
		ins = append(ins, genManyErrors(r, []int{3, 40, 120, 130, 300, 1100}[i%6]))
	}
	for _, size := range p.big {
		ins = append(ins, genBig(r, size, false), genBig(r, size, true))
	}
	for i := 0; i < p.lrrec; i++ {
		in := genLRRecoveryN(r, i)
		in.Flags = drawFlags(r, in.Rules, r.chance(1, 3))
		if in.Name == "recovref" && !contains(in.Flags, "-optimize-grammar") {
			in.Flags = append(in.Flags, "-optimize-grammar")
		}
		ins = append(ins, in)
		if contains(in.Flags, "-optimize-grammar") {
			// the optimizer removes or inlines rules; also as written
			in2 := in
			in2.Flags = removeArgs(in.Flags, "-optimize-grammar", 1)
			ins = append(ins, in2)
		}
	}
	for i := 0; i < p.bytes; i++ {
		ins = append(ins, toolInput{Name: "bytes", Class: "bytes", Grammar: randomBytes(r), Flags: drawFlags(r, nil, false)})
	}
	return ins
}

// c13Variant is one run of an input: the base run, the delivery twin or a
// faulted run.
type c13Variant struct {
	kind string // base, twin, short, readerr, openerr, createerr, writeerr, outclose, inclose, stderr
	c    tooldriver.Case
}

type c13Job struct {
	input int
	v     c13Variant
}

type c13Replay struct {
	Input   string            `json:"input_name"`
	Grammar string            `json:"grammar"`
	Kind    string            `json:"variant"`
	Base    *tooldriver.Case  `json:"base,omitempty"`
	History []tooldriver.Case `json:"history,omitempty"` // cases run before in the same process (only when needed)
	Case    tooldriver.Case   `json:"case"`
}

func hasFlag(in toolInput, f string) bool { return contains(in.Flags, f) }

// c13Judge applies the oracle to one variant given the base outcome (nil for
// the base itself). It returns a violation class and message, or "".
func c13Judge(in toolInput, kind string, c *tooldriver.Case, o outcome, base *outcome) (string, string) {
	switch o.Status {
	case "slow-unconfirmed":
		return "", ""
	case "hang":
		return "hang", "the tool did not terminate within the watchdog limit"
	case "crash":
		return "crash", "the process died: " + firstLine(strings.TrimSpace(lastFatal(o.Detail)))
	}
	run := &o.Res.Runs[0]
	if run.StepCapHit {
		return "not-bounded", fmt.Sprintf("the tool did not finish within the logical-time bound of %d instrumentation steps (5 million + 50 000 per grammar byte; the grammar has %d bytes)", c.StepCap, caseInputLen(c))
	}
	if run.Blocked != "" {
		return "hang", "the tool blocked for ever: " + run.Blocked
	}
	if run.Panic != "" {
		return "panic", "Go panic escaped main: " + firstLine(run.Panic)
	}
	noOutputExpected := hasFlag(in, "-x")
	debug := hasFlag(in, "-debug")
	faultFree := kind == "base" || kind == "twin" || kind == "short" || kind == "opttwin" || kind == "cachetwin" || kind == "paths"
	if run.Exit != 0 && run.Stderr.Len == 0 && c.Faults.ErrWriteErrAt < 0 {
		return "silent-failure", fmt.Sprintf("exit status %d without any diagnostic on stderr", run.Exit)
	}
	if faultFree && run.Exit == 0 && run.Stderr.Len > 0 && strings.Contains(strings.ToLower(run.StderrHead), "error") {
		// (a warning on success would be fine; an error report with status 0 is not)
		return "diagnostic-with-exit-0", "an error was reported but the exit status is 0: " + firstLine(strings.TrimSpace(run.StderrHead))
	}
	if faultFree && run.Exit == 0 {
		if noOutputExpected {
			if !debug && run.OutLen != 0 {
				return "output-with-x", "-x given but output was written"
			}
		} else {
			if run.OutLen == 0 {
				return "no-output", "exit status 0 but no parser was written"
			}
			if !(debug && run.OutFile == "") && !run.OutGoOK {
				return "incomplete-output", "exit status 0 but the output is not a complete Go file: " + run.OutGoErr
			}
			if !(debug && run.OutFile == "") && run.OutUnresolved != "" {
				return "incomplete-output", "exit status 0 but the emitted parser refers to " + run.OutUnresolved + ", which it does not define"
			}
		}
	}
	if base == nil || base.Status != "ok" {
		return "", ""
	}
	b := &base.Res.Runs[0]
	if b.Panic != "" {
		return "", ""
	}
	outSum := func(r *tooldriver.Run) tooldriver.FileSum {
		if r.OutFile != "" {
			return r.Files[r.OutFile]
		}
		return r.Stdout
	}
	switch kind {
	case "cachetwin":
		if b.StepCapHit || run.StepCapHit {
			return "", "" // the side without -cache may take exponential time (documented)
		}
		if run.Exit != b.Exit {
			return "cache-dependent-verdict", fmt.Sprintf("exit %d, but %d when -cache is toggled", b.Exit, run.Exit)
		}
		if !debug && run.Exit == 0 && !noOutputExpected && outSum(run) != outSum(b) {
			return "cache-dependent-output", "generated bytes differ when -cache is toggled"
		}
	case "opttwin":
		// (run: without -optimize-grammar; b: with it) a rule the optimised
		// parser refers to but does not contain must be one the grammar itself
		// never defined
		if run.Exit == 0 && b.Exit == 0 && !noOutputExpected {
			plain := map[string]bool{}
			for _, n := range run.OutDangling {
				plain[n] = true
			}
			for _, n := range b.OutDangling {
				if !plain[n] {
					return "incomplete-output", fmt.Sprintf("with -optimize-grammar the emitted parser refers to rule %s, which it does not contain, although the grammar defines it (the parser emitted without the flag contains it)", n)
				}
			}
		}
	case "twin":
		// the verdict and the generated bytes do not depend on how the text is delivered
		if run.Exit != b.Exit {
			return "delivery-dependent-verdict", fmt.Sprintf("exit %d with one delivery, %d with the other", b.Exit, run.Exit)
		}
		if !debug && run.Exit == 0 && !noOutputExpected && outSum(run) != outSum(b) {
			return "delivery-dependent-output", "generated bytes differ between stdin/file or stdout/-o delivery"
		}
	case "paths":
		// the grammar under another name, the output at another place: where -o
		// names something a file can be created at, verdict and bytes are those
		// of the base run; an existing directory is the tool's to refuse or to
		// fill (the general rules above apply)
		if len(c.Dirs) == 0 {
			if run.Exit != b.Exit {
				return "path-dependent-verdict", fmt.Sprintf("exit %d, but %d with the grammar and the output under other names", b.Exit, run.Exit)
			}
			if !debug && run.Exit == 0 && !noOutputExpected && outSum(run) != outSum(b) {
				return "path-dependent-output", "generated bytes differ with the grammar and the output under other names"
			}
		}
	case "short":
		if runSignature(run) != runSignature(b) {
			return "short-read-visible", "short reads changed the observable behaviour: " + runSignature(b) + " vs " + runSignature(run)
		}
	case "readerr":
		if run.Fired.InReadErr && run.Exit == 0 {
			return "read-error-ignored", "a read error on the grammar was followed by exit status 0"
		}
	case "openerr":
		if run.Fired.InOpenErr && run.Exit == 0 {
			return "open-error-ignored", "failing to open the grammar was followed by exit status 0"
		}
	case "createerr":
		if run.Fired.OutCreateErr && run.Exit == 0 {
			return "create-error-ignored", "failing to create the output file was followed by exit status 0"
		}
	case "writeerr":
		if run.Fired.OutWriteErr && run.Exit == 0 {
			return "write-error-ignored", "a failed write of the parser was followed by exit status 0"
		}
	case "outclose":
		if run.Fired.OutCloseErr && run.Exit == 0 {
			return "close-error-ignored", "a failed close of the output was followed by exit status 0"
		}
	case "stderr":
		if run.Exit != b.Exit {
			return "stderr-fault-changes-verdict", fmt.Sprintf("exit %d, but %d when stderr fails", b.Exit, run.Exit)
		}
		if outSum(run) != outSum(b) {
			return "stderr-fault-changes-output", "generated bytes differ when stderr fails"
		}
	}
	return "", ""
}

func lastFatal(s string) string {
	for _, key := range []string{"fatal error:", "panic:", "runtime:"} {
		if i := strings.Index(s, key); i >= 0 {
			return s[i:]
		}
	}
	return tail(s, 300)
}

func runC13(tier string) int {
	start := time.Now()
	seed := envSeed()
	p := c13Tier(tier)
	sc := newScratch("c13")
	tw := buildToolWorld(sc)
	ins := c13Inputs(seed, p, tw.dir)
	rep := newReporter("C13")
	r := newRng(seed, hashLabel("c13-variants"))

	// stage 1: base runs
	type job = c13Job
	var baseJobs []job
	deliv := make([]delivery, len(ins))
	for i := range ins {
		deliv[i] = delivery{viaFile: r.chance(1, 2), outFile: r.chance(1, 2)}
		deliv[i].stale = deliv[i].outFile && r.chance(1, 2)
		c := makeCase(fmt.Sprintf("base-%d", i), ins[i], deliv[i], simos.NoFaults(), simmap.Asc, 0, 1)
		c.StepCap = stepCapFor(len(ins[i].Grammar))
		baseJobs = append(baseJobs, job{i, c13Variant{"base", c}})
	}
	runJobs := func(jobs []job) []outcome {
		var sessions [][]tooldriver.Case
		for i := 0; i < len(jobs); i += p.sessionLen {
			j := i + p.sessionLen
			if j > len(jobs) {
				j = len(jobs)
			}
			var s []tooldriver.Case
			for _, jb := range jobs[i:j] {
				s = append(s, jb.v.c)
			}
			sessions = append(sessions, s)
		}
		res := runSessions(tw, sessions)
		var flat []outcome
		for _, s := range res {
			flat = append(flat, s...)
		}
		return flat
	}
	baseOut := runJobs(baseJobs)

	// stage 2: variants, placed according to what the base run did
	var varJobs []job
	faultFired := map[string]int{}
	for i := range ins {
		in := ins[i]
		b := baseOut[i]
		d := deliv[i]
		add := func(kind string, dd delivery, f simos.Faults) {
			c := makeCase(fmt.Sprintf("%s-%d", kind, i), in, dd, f, simmap.Asc, 0, 1)
			c.StepCap = stepCapFor(len(in.Grammar))
			if kind == "openerr" {
				// a perfectly good grammar waits on stdin: a tool that shrugs off the
				// failed open and reads stdin instead would "succeed"
				c.Stdin = []byte("{\npackage decoy\n}\nDecoy <- 'd'\n")
			}
			varJobs = append(varJobs, job{i, c13Variant{kind, c}})
		}
		if b.Status == "ok" && b.Res.Runs[0].StepCapHit {
			continue // every variant would only spend the same logical-time budget again
		}
		add("twin", delivery{viaFile: !d.viaFile, outFile: !d.outFile}, simos.NoFaults())
		{
			// -cache only trades memory for time: with and without it the verdict
			// and the generated bytes are the same
			in2 := in
			if contains(in.Flags, "-cache") {
				in2.Flags = removeArgs(in.Flags, "-cache", 1)
			} else {
				in2.Flags = append([]string{"-cache"}, in.Flags...)
			}
			c := makeCase(fmt.Sprintf("cachetwin-%d", i), in2, d, simos.NoFaults(), simmap.Asc, 0, 1)
			c.StepCap = stepCapFor(len(in.Grammar))
			varJobs = append(varJobs, job{i, c13Variant{"cachetwin", c}})
		}
		if i%2 == 0 {
			// the grammar under a name without a dot, in a directory, with two dots;
			// -o naming an existing directory, a name without extension, a place
			// in a directory that does not exist yet
			dd := delivery{viaFile: true, outFile: true}
			dd.inName = r.pick([]string{"Pegfile", "g", "dir.d/grammar", "grammar.v2.peg", ".peg", "src/calc.peg", "grammar.peg"})
			switch r.intn(7) {
			case 6:
				dd.outArg = "/dev/stdout" // a name of the standard output: a pipe, not a file
			case 0:
				dd.outArg, dd.dirs = "out", []string{"out"}
			case 1:
				dd.outArg, dd.dirs = "gen.d", []string{"gen.d"}
			case 2:
				dd.outArg, dd.dirs = ".", []string{"."}
			case 3:
				dd.outArg = "parser"
			case 4:
				dd.outArg = "a.b/c.d/parser.gen.go"
			default:
				dd.outArg = "out/parser.go"
			}
			add("paths", dd, simos.NoFaults())
		}
		if contains(in.Flags, "-optimize-grammar") {
			// -optimize-grammar only rewrites the grammar: the same run without
			// it is the reference for what the emitted parser may refer to
			in2 := in
			in2.Flags = removeArgs(in.Flags, "-optimize-grammar", 1)
			c := makeCase(fmt.Sprintf("opttwin-%d", i), in2, d, simos.NoFaults(), simmap.Asc, 0, 1)
			c.StepCap = stepCapFor(len(in.Grammar))
			varJobs = append(varJobs, job{i, c13Variant{"opttwin", c}})
		}
		if b.Status != "ok" {
			continue
		}
		br := &b.Res.Runs[0]
		var kinds []string
		kinds = append(kinds, "short", "readerr", "inclose", "stderr")
		if d.viaFile {
			kinds = append(kinds, "openerr")
		}
		if br.OutLen > 0 && !hasFlag(in, "-x") && !hasFlag(in, "-debug") {
			kinds = append(kinds, "writeerr", "writeerr", "outclose")
			if d.outFile {
				kinds = append(kinds, "createerr")
			}
		}
		// draw faultsPer of them without replacement
		for k := 0; k < p.faultsPer && len(kinds) > 0; k++ {
			j := r.intn(len(kinds))
			kind := kinds[j]
			kinds = append(kinds[:j], kinds[j+1:]...)
			f := simos.NoFaults()
			switch kind {
			case "short":
				f.InChunkSeed = r.u64() | 1
			case "readerr":
				f.InReadErrAt = r.intn(len(in.Grammar) + 1)
				if r.chance(1, 2) {
					f.InChunkSeed = r.u64() | 1
				}
			case "inclose":
				f.InCloseErr = true
			case "stderr":
				if br.Stderr.Len == 0 {
					continue
				}
				f.ErrWriteErrAt = r.intn(br.Stderr.Len)
			case "openerr":
				f.InOpenErr = r.pick([]string{"ENOENT", "EACCES"})
			case "createerr":
				f.OutCreateErr = r.pick([]string{"EACCES", "ENOSPC", "EISDIR", "EROFS"})
			case "writeerr":
				switch r.intn(4) {
				case 0:
					f.OutWriteErrAt = 0
				case 1:
					f.OutWriteErrAt = br.OutLen - 1
				default:
					f.OutWriteErrAt = r.intn(br.OutLen)
				}
				f.OutWriteErr = r.pick([]string{"ENOSPC", "EIO", "EPIPE"})
			case "outclose":
				f.OutCloseErr = true
			}
			add(kind, d, f)
		}
	}
	varOut := runJobs(varJobs)

	// judge
	type verdict struct {
		input int
		kind  string
		class string
		msg   string
		c     tooldriver.Case
	}
	var bad []verdict
	classCount := map[string]int{}
	kindCount := map[string]int{}
	behaviours := map[string]bool{}
	evaluations := 0
	shortReads := 0
	var bigRuns []string
	for i := range ins {
		evaluations++
		kindCount["base"]++
		if cl, msg := c13Judge(ins[i], "base", &baseJobs[i].v.c, baseOut[i], nil); cl != "" {
			bad = append(bad, verdict{i, "base", cl, msg, baseJobs[i].v.c})
		}
		st := baseOut[i].Status
		if st == "ok" {
			rn := &baseOut[i].Res.Runs[0]
			st = fmt.Sprintf("exit%d", rn.Exit)
			if rn.Panic != "" {
				st = "panic"
			}
			behaviours[ins[i].Class+"|"+st+"|"+firstLine(rn.StderrHead)] = true
		}
		classCount[ins[i].Class+"/"+st]++
	}
	for j, jb := range varJobs {
		evaluations++
		kindCount[jb.v.kind]++
		o := varOut[j]
		if o.Status == "ok" {
			f := o.Res.Runs[0].Fired
			shortReads += f.ShortReads
			for name, on := range map[string]bool{"in_read_err": f.InReadErr, "in_close_err": f.InCloseErr, "in_open_err": f.InOpenErr, "out_create_err": f.OutCreateErr, "out_write_err": f.OutWriteErr, "out_close_err": f.OutCloseErr, "err_write_err": f.ErrWriteErr, "short_reads": f.ShortReads > 0} {
				if on {
					faultFired[name]++
				}
			}
			behaviours[jb.v.kind+"|"+fmt.Sprint(o.Res.Runs[0].Exit)+"|"+firstLine(o.Res.Runs[0].StderrHead)] = true
		}
		bo := baseOut[jb.input]
		if ins[jb.input].Class == "big" && (jb.v.kind == "twin" || jb.v.kind == "short") {
			d := func(o outcome) string {
				if o.Status != "ok" {
					return o.Status
				}
				return fmt.Sprintf("exit %d after %d steps", o.Res.Runs[0].Exit, o.Res.Runs[0].Steps)
			}
			bigRuns = append(bigRuns, fmt.Sprintf("%s via_file=%v: base %s; %s %s", ins[jb.input].Name, deliv[jb.input].viaFile, d(bo), jb.v.kind, d(o)))
		}
		if cl, msg := c13Judge(ins[jb.input], jb.v.kind, &varJobs[j].v.c, o, &bo); cl != "" {
			// a variant failing exactly like its base is one violation, reported once (by the base)
			if bcl, _ := c13Judge(ins[jb.input], "base", &baseJobs[jb.input].v.c, bo, nil); bcl == cl {
				continue
			}
			bad = append(bad, verdict{jb.input, jb.v.kind, cl, msg, jb.v.c})
		}
	}

	// stage 3: the unmodified binary: invalid flags, and fidelity of the simulation
	realRuns, realMismatch := 0, 0
	{
		_, bin := buildPigeon(sc)
		realRuns, realMismatch = c13RealBinary(bin, ins, baseJobs, baseOut, p.realBinary, r, rep, seed)
	}

	// report: confirm alone in a fresh process, minimise, classify
	sort.SliceStable(bad, func(i, j int) bool { return bad[i].input < bad[j].input })
	reported, knownConfirmed, looked := 0, 0, 0
	seenKey := map[string]bool{}
	for _, v := range bad {
		in := ins[v.input]
		key := v.class + "|" + v.msg
		if seenKey[key] || reported >= 12 {
			// one confirmation and minimisation per distinct (class, message); the
			// count of violating runs is in the evidence
			continue
		}
		// instances of a listed known finding do not use up that budget (a dozen
		// doubling chains of different sizes once kept a violation further down
		// the list from being looked at); a few of them are confirmed, the rest
		// are counted
		probe := &violation{Property: "C13", Class: v.class, Message: v.msg, Attrs: c13Attrs(in, v.kind, v.class, v.msg, v.c, in.Grammar)}
		isKnown := rep.classify(probe) != ""
		if isKnown && knownConfirmed >= 4 {
			rep.add(probe)
			continue
		}
		seenKey[key] = true
		if isKnown {
			knownConfirmed++
		}
		viol := c13Confirm(tw, seed, v.input, in, v.kind, v.class, v.msg, v.c, baseJobs[v.input].v.c)
		if viol != nil {
			if !isKnown && rep.classify(viol) == "" {
				// only what is really reported uses up the budget: runs that turn out
				// to be documented behaviour (-no-recover panics, exponential parses
				// without -cache) or do not reproduce alone are looked at and dropped
				reported++
			}
			rep.add(viol)
		} else {
			looked++
			if looked > 60 {
				break // a wall of excused or unreproducible runs: stop spending minutes on them
			}
		}
	}

	var samples []any
	for _, i := range []int{0, len(ins) / 4, len(ins) / 2, 3 * len(ins) / 4, len(ins) - 1} {
		if i >= 0 && i < len(ins) && baseOut[i].Status == "ok" {
			rn := baseOut[i].Res.Runs[0]
			samples = append(samples, map[string]any{"input": ins[i].Name, "class": ins[i].Class, "args": baseJobs[i].v.c.Args, "grammar_head": head(string(ins[i].Grammar), 200), "exit": rn.Exit, "stderr_head": head(rn.StderrHead, 160), "out_len": rn.OutLen})
		}
	}
	if len(varJobs) > 0 {
		j := len(varJobs) / 2
		samples = append(samples, map[string]any{"variant": varJobs[j].v.kind, "case": describeCase(varJobs[j].v.c), "status": varOut[j].Status})
	}
	wall := since(start)
	nontrivial := len(behaviours)
	ev := &evidence{PropertyID: "C13", Tier: tier, Seed: int64(seed), Level: "exploration", WallS: wall, Violations: len(rep.fresh),
		Coverage: map[string]any{
			"evaluations":                          evaluations,
			"distinct_nontrivial":                  nontrivial,
			"rule":                                 "one evaluation = one in-process run of the real pigeon main() against the simulated OS; per (grammar bytes, flags) input: a fault-free base run, a delivery twin (stdin<->file, stdout<->-o) and seeded I/O-fault variants placed inside the base run's own I/O (short reads, read error at byte k, open/create failure, write error at byte k of the output, close errors, stderr failure); distinct_nontrivial = distinct (input class or fault kind, exit status, first diagnostic line) behaviours observed",
			"samples":                              samples,
			"inputs":                               len(ins),
			"inputs_by_class_and_outcome":          classCount,
			"runs_by_variant":                      kindCount,
			"faults_fired":                         faultFired,
			"short_reads_delivered":                shortReads,
			"big_inputs":                           bigRuns,
			"real_binary_runs":                     realRuns,
			"real_binary_vs_simulation_mismatches": realMismatch,
			"runs_per_hour":                        perHour(evaluations, wall),
			"simulated_time":                       "no clock in pigeon; logical time only",
			"known_findings_seen":                  rep.known,
			"violating_runs_before_dedup":          len(bad),
			"logical_time":                         stepEvidence(),
			"no_recover_panics_tolerated_as_documented":                c13NoRecoverDocumented,
			"exponential_parses_without_cache_tolerated_as_documented": c13CacheDocumented,
			"components": map[string]any{"real": []string{"main.go", "pigeon.go (front-end)", "ast", "builder", "golang.org/x/tools/imports", "flag parsing of invalid flags (unmodified binary as a subprocess)"}, "stub": []string{"os files/streams/exit (simos)", "map iteration order fixed ascending (simmap)"}},
			"excluded":   "-h/-help (a help request, not a generation); whether accepted output compiles (C04)",
		},
		Assumptions: []string{"bounded liveness: a run must end within 5 million + 50 000 x (grammar bytes + 64) instrumentation steps of pigeon's own packages (function entries and loop iterations); a run beyond that is only excused when it lacks -cache and the same run with -cache stays within the bound (documented purpose of -cache)", "a case that exceeds the 5 s watchdog is re-run alone with 20 s before it is called a hang", "simos.Exit unwinds by panic; everything observable after the first Exit is discarded, as after os.Exit", "fault offsets are sampled inside the I/O the fault-free run performed, not enumerated"},
	}
	writeEvidence(ev)
	code := rep.finish()
	fmt.Printf("C13 %s: %d inputs, %d runs (%d variants), %d violating runs, %d behaviours, real-binary runs %d (mismatch %d), %.1fs\n", tier, len(ins), evaluations, len(varJobs), len(bad), nontrivial, realRuns, realMismatch, wall)
	return code
}

// c13Confirm re-runs the violating case alone in a fresh process (with a
// longer watchdog), minimises the grammar, and builds the violation.
func c13Confirm(tw *toolWorld, seed uint64, idx int, in toolInput, kind, class, msg string, c, base tooldriver.Case) *violation {
	limit := 20 * time.Second
	judge := func(cc tooldriver.Case, g []byte) (string, string) {
		bc := base
		setGrammar(&cc, g)
		setGrammar(&bc, g)
		in2 := in
		in2.Grammar = g
		var bo *outcome
		if kind != "base" {
			o := runSession(tw, []tooldriver.Case{bc}, limit)[0]
			bo = &o
		}
		o := runSession(tw, []tooldriver.Case{cc}, limit)[0]
		return c13Judge(in2, kind, &cc, o, bo)
	}
	cl, m := judge(c, in.Grammar)
	if cl == "panic" && contains(c.Args, "-no-recover") {
		// -no-recover is documented to let a panic of the grammar front-end reach
		// the user ("useful to access the panic stack"). The panic is only that
		// documented behaviour if the same run without the flag ends with an
		// ordinary diagnostic and a non-zero status.
		tc := c
		tc.Args = removeArgs(c.Args, "-no-recover", 1)
		o := runSession(tw, []tooldriver.Case{tc}, 20*time.Second)[0]
		if o.Status == "ok" && o.Res.Runs[0].Panic == "" && o.Res.Runs[0].Exit != 0 && o.Res.Runs[0].Stderr.Len > 0 {
			c13NoRecoverDocumented++
			return nil
		}
	}
	if (cl == "not-bounded" || cl == "hang" || cl == "crash") && !contains(c.Args, "-cache") {
		// (with -debug every step of an exponential parse also writes to stderr, and
		// the run ends in the memory limit or the wall-clock watchdog first)
		// "-cache: cache parser results to avoid exponential parsing time in
		// pathological cases" - reading a grammar text without it may take
		// exponential time by design (nested parentheses do). That is documented
		// behaviour exactly when the same run with -cache stays within the bound.
		tc := c
		tc.Args = append([]string{"-cache"}, c.Args...)
		o := runSession(tw, []tooldriver.Case{tc}, 20*time.Second)[0]
		if o.Status == "ok" && !o.Res.Runs[0].StepCapHit {
			c13CacheDocumented++
			return nil
		}
	}
	if cl == "" {
		// not reproducible alone: the run depended on process history; do not report
		// what cannot be replayed, but say so.
		fmt.Printf("NOTE: C13 %s (%s) on input %d did not reproduce in a fresh process; dropped\n", class, msg, idx)
		return nil
	}
	class, msg = cl, m
	// a candidate counts only if it fails in the same way: same class and the
	// same message up to numbers (a different panic is a different violation)
	norm := func(m string) string {
		return strings.Map(func(r rune) rune {
			if r >= '0' && r <= '9' {
				return -1
			}
			return r
		}, firstLine(m))
	}
	same := func(c2, m2 string) bool { return c2 == class && norm(m2) == norm(msg) }
	g := in.Grammar
	// reduce the grammar: by lines, then by halves of the remaining text
	budget := 40
	if class == "hang" || class == "crash" {
		// every candidate that still hangs (or dies slowly) costs a full watchdog period
		limit, budget = 6*time.Second, 16
	}
	deadline := time.Now().Add(90 * time.Second)
	expired := func() bool { return time.Now().After(deadline) }
	lines := strings.Split(string(g), "\n")
	if in.Attrs != nil {
		lines = nil // the recorded shape describes this text; it is small already
	}
	for i := 0; i < len(lines) && budget > 0 && len(lines) > 1 && !expired(); {
		cand := append(append([]string(nil), lines[:i]...), lines[i+1:]...)
		budget--
		if c2, m2 := judge(c, []byte(strings.Join(cand, "\n"))); same(c2, m2) {
			lines = cand
		} else {
			i++
		}
	}
	if in.Attrs == nil {
		g = []byte(strings.Join(lines, "\n"))
	}
	for budget > 0 && len(g) > 8 && !expired() && in.Attrs == nil {
		budget--
		half := len(g) / 2
		if c2, m2 := judge(c, g[:half]); same(c2, m2) {
			g = g[:half]
			continue
		}
		if c2, m2 := judge(c, g[half:]); same(c2, m2) {
			g = g[half:]
			continue
		}
		break
	}
	// drop flags one at a time
	for i := 0; i < len(c.Args) && budget > 0 && !expired(); {
		a := c.Args[i]
		if !strings.HasPrefix(a, "-") || a == "-o" {
			i++
			continue
		}
		n := 1
		if a == "-receiver-name" || a == "-alternate-entrypoints" {
			n = 2
		}
		cc := c
		cc.Args = append(append([]string(nil), c.Args[:i]...), c.Args[i+n:]...)
		bb := base
		budget--
		in2 := in
		in2.Flags = nil
		for _, x := range cc.Args {
			if strings.HasPrefix(x, "-") && x != "-o" {
				in2.Flags = append(in2.Flags, x)
			}
		}
		saveIn, saveBase := in, base
		in = in2
		base.Args = removeArgs(bb.Args, a, n)
		if c2, m2 := judge(cc, g); same(c2, m2) {
			c = cc
		} else {
			in, base = saveIn, saveBase
			i++
		}
	}
	setGrammar(&c, g)
	setGrammar(&base, g)
	_, msg = judge(c, g)
	rp := &c13Replay{Input: in.Name, Grammar: string(g), Kind: kind, Case: c}
	if kind != "base" {
		rp.Base = &base
	}
	attrs := c13Attrs(in, kind, class, msg, c, g)
	return &violation{Property: "C13", Class: class, Message: fmt.Sprintf("%s [%s] args=%q grammar=%q", msg, kind, c.Args, head(string(g), 200)), Attrs: attrs, Seed: seed, Case: fmt.Sprintf("input-%d/%s", idx, kind), Replay: rp, Kind: "c13"}
}

// c13Attrs are the attributes a C13 violation is classified by.
func c13Attrs(in toolInput, kind, class, msg string, c tooldriver.Case, g []byte) map[string]string {
	attrs := map[string]string{"class": class, "variant": kind, "message": msg, "args": strings.Join(c.Args, " "), "grammar": string(g), "dedupe": class + "|" + msg}
	for k, v := range in.Attrs {
		attrs[k] = v
	}
	if in.Attrs != nil {
		attrs["optimize_grammar"] = fmt.Sprint(contains(c.Args, "-optimize-grammar"))
		attrs["dedupe"] = class + "|" + in.Attrs["refs_all_visited"] + "|" + attrs["optimize_grammar"]
	}
	return attrs
}

var c13NoRecoverDocumented, c13CacheDocumented int

func removeArgs(args []string, flag string, n int) []string {
	for i, a := range args {
		if a == flag {
			return append(append([]string(nil), args[:i]...), args[i+n:]...)
		}
	}
	return args
}

func setGrammar(c *tooldriver.Case, g []byte) {
	name := c.GrammarFile
	if name == "" && contains(c.Args, "grammar.peg") {
		name = "grammar.peg"
	}
	if name != "" {
		files := map[string][]byte{}
		for k, v := range c.Files {
			files[k] = v
		}
		files[name] = g
		c.Files = files
	} else {
		c.Stdin = g
	}
	if c.StepCap > 0 {
		c.StepCap = stepCapFor(len(g))
	}
}

func replayC13(tw *toolWorld, rp *c13Replay) (string, string) {
	in := toolInput{Name: rp.Input, Grammar: []byte(rp.Grammar)}
	for _, a := range rp.Case.Args {
		if strings.HasPrefix(a, "-") && a != "-o" {
			in.Flags = append(in.Flags, a)
		}
	}
	var bo *outcome
	if rp.Base != nil {
		o := runSession(tw, []tooldriver.Case{*rp.Base}, 20*time.Second)[0]
		bo = &o
	}
	cases := append(append([]tooldriver.Case(nil), rp.History...), rp.Case)
	outs := runSession(tw, cases, 20*time.Second)
	return c13Judge(in, rp.Kind, &rp.Case, outs[len(outs)-1], bo)
}

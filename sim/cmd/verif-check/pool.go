package main

import (
	"bufio"
	"encoding/json"
	"fmt"
	"io"
	"os"
	"os/exec"
	"sync"
	"time"
)

// worker is one child process speaking JSON lines: one request, one response.
type worker struct {
	bin    string
	env    []string
	cmd    *exec.Cmd
	in     io.WriteCloser
	out    *bufio.Reader
	stderr *tailBuf
	lines  chan []byte
	calls  int
}

type tailBuf struct {
	mu   sync.Mutex
	head []byte
	buf  []byte
}

func (t *tailBuf) Write(p []byte) (int, error) {
	t.mu.Lock()
	defer t.mu.Unlock()
	if len(t.head) < 4096 {
		n := 4096 - len(t.head)
		if n > len(p) {
			n = len(p)
		}
		t.head = append(t.head, p[:n]...)
	}
	t.buf = append(t.buf, p...)
	if len(t.buf) > 1<<16 {
		t.buf = t.buf[len(t.buf)-(1<<16):]
	}
	return len(p), nil
}

func (t *tailBuf) String() string {
	t.mu.Lock()
	defer t.mu.Unlock()
	if len(t.buf) > len(t.head) && len(t.buf) >= 1<<16 {
		return string(t.head) + "\n[...]\n" + string(t.buf)
	}
	return string(t.buf)
}

func (w *worker) start() error {
	w.cmd = exec.Command(w.bin)
	w.cmd.Env = w.env
	var err error
	if w.in, err = w.cmd.StdinPipe(); err != nil {
		return err
	}
	so, err := w.cmd.StdoutPipe()
	if err != nil {
		return err
	}
	w.stderr = &tailBuf{}
	w.cmd.Stderr = w.stderr
	if err := w.cmd.Start(); err != nil {
		return err
	}
	w.out = bufio.NewReaderSize(so, 1<<20)
	w.lines = make(chan []byte, 1)
	go func(r *bufio.Reader, ch chan []byte) {
		for {
			line, err := r.ReadBytes('\n')
			if len(line) > 0 && err == nil {
				ch <- line
			}
			if err != nil {
				close(ch)
				return
			}
		}
	}(w.out, w.lines)
	return nil
}

func (w *worker) kill() {
	if w.cmd != nil && w.cmd.Process != nil {
		w.cmd.Process.Kill()
		w.cmd.Wait()
	}
	w.cmd = nil
}

// callStatus says how a request ended.
type callStatus int

const (
	callOK callStatus = iota
	callTimeout
	callCrashed
)

// call sends one request and waits for one response line.
func (w *worker) call(req any, timeout time.Duration) ([]byte, callStatus, string) {
	if w.cmd == nil {
		if err := w.start(); err != nil {
			fatalHarness("cannot start %s: %v", w.bin, err)
		}
	}
	b, _ := json.Marshal(req)
	b = append(b, '\n')
	if _, err := w.in.Write(b); err != nil {
		st := w.stderr.String()
		w.kill()
		return nil, callCrashed, st
	}
	select {
	case line, ok := <-w.lines:
		if !ok {
			w.cmd.Wait()
			st := w.stderr.String()
			code := -1
			if w.cmd.ProcessState != nil {
				code = w.cmd.ProcessState.ExitCode()
			}
			w.cmd = nil
			return nil, callCrashed, fmt.Sprintf("exit=%d\n%s", code, st)
		}
		return line, callOK, ""
	case <-time.After(timeout):
		st := w.stderr.String()
		w.kill()
		return nil, callTimeout, st
	}
}

// parallel runs fn(i, w) for i in [0,n) on nw workers; each goroutine owns
// one child process. Results must be stored by index by fn (order of
// execution is not deterministic, results are).
func parallel(n, nw int, bin string, env []string, fn func(i int, w *worker)) {
	if nw > n {
		nw = n
	}
	if nw < 1 {
		nw = 1
	}
	var wg sync.WaitGroup
	next := make(chan int, n)
	for i := 0; i < n; i++ {
		next <- i
	}
	close(next)
	for k := 0; k < nw; k++ {
		wg.Add(1)
		go func() {
			defer wg.Done()
			w := &worker{bin: bin, env: env}
			defer func() {
				if w.cmd != nil {
					w.in.Close()
					w.kill()
				}
			}()
			for i := range next {
				fn(i, w)
			}
		}()
	}
	wg.Wait()
}

func workers() int {
	if s := os.Getenv("VERIF_WORKERS"); s != "" {
		var n int
		fmt.Sscan(s, &n)
		if n > 0 {
			return n
		}
	}
	return 16
}

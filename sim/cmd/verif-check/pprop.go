package main

import (
	"fmt"
	"os"
	"strings"
	"time"

	"verifsim/parsersim"
)

// pParams sizes a parser-world check.
type pParams struct {
	batch    int // set by the runner: the batch being generated
	batches  int // independent worlds (each built and simulated in turn)
	grammars int
	inputs   int
	optSets  int
	enumMax  int
	extra    int
}

// pProp describes one parser-world property check.
type pProp struct {
	id      string
	level   string
	rule    string
	assume  []string
	bias    specBias
	tier    func(tier string) pParams
	mkReqs  func(r *rng, gp *genParser, p pParams) []*parsersim.Request
	attrs   func(gp *genParser, req *parsersim.Request, v *parsersim.Violation, attrs map[string]string)
	nontriv func(o *parsersim.Response) bool
	faults  func(stats map[string]int) map[string]int
	timeout time.Duration
	race    bool
	accept  func(gp *genParser) bool
	dkey    func(req *parsersim.Request, resp *parsersim.Response) string
	restart int // restart the child process every so many cases (0: never)
	// clockTwin: also build every -optimize-parser grammar without that flag
	clockTwin bool
	// extraSpecs adds hand-made parsers to every world.
	extraSpecs func(r *rng) []*genParser
	// collect sees every answered case (used to hand observations to a later pass).
	collect func(batch int, gp *genParser, req *parsersim.Request, resp *parsersim.Response)
	// post runs after the cases of a batch; it may add violations and statistics.
	post func(pp *pProp, pw *parserWorld, reqs []*parsersim.Request, owner []*genParser, outs []pOutcome, env []string, rep *reporter, seed uint64, stats map[string]int) int
}

func runParserProp(pp *pProp, tier string) int {
	start := time.Now()
	seed := envSeed()
	p := pp.tier(tier)
	sc := newScratch(strings.ToLower(pp.id))
	_, pigeon := buildPigeon(sc)
	rep := newReporter(pp.id)
	if pp.race {
		rep.tag = "-race"
	}
	env := goEnv()
	if pp.race {
		env = append(env, "GORACE=halt_on_error=1 exitcode=66")
	}
	runs, cases, grammars := 0, 0, 0
	distinct := map[string]bool{}
	var samples []any
	nviol := 0
	stats := map[string]int{}
	confirmedKeys := map[string]bool{}
	confirmTries := map[string]int{}
	var pw *parserWorld
	nb := p.batches
	if nb < 1 {
		nb = 1
	}
	for batch := 0; batch < nb; batch++ {
		// every batch is an independent world built from its own sub-stream of the seed
		r := newRng(seed, hashLabel(pp.id), uint64(batch))
		var specs, twins []*genParser
		for i := 0; len(specs) < p.grammars && i < 20*p.grammars; i++ {
			gp := drawSpec(r, fmt.Sprintf("p%03d", len(specs)), pp.bias)
			if pp.accept != nil && !pp.accept(gp) {
				continue
			}
			specs = append(specs, gp)
			if pp.clockTwin && gp.Optimized {
				// the same grammar generated without -optimize-parser: only that variant
				// can report its expression count; it serves as the clock of the other
				var tf []string
				for _, f := range gp.Flags {
					if f != "-optimize-parser" {
						tf = append(tf, f)
					}
				}
				tw := newGenParser(gp.Name+"t", gp.G, tf)
				tw.ClockFor = gp.Name
				gp.Twin = tw.Name
				twins = append(twins, tw)
			}
		}
		if pp.extraSpecs != nil {
			specs = append(specs, pp.extraSpecs(r)...)
		}
		if pw != nil {
			os.RemoveAll(pw.dir)
			os.Remove(pw.bin)
		}
		pw = buildParserWorld(sc, pigeon, append(specs, twins...), pp.race)
		grammars += len(pw.parsers)

		var reqs []*parsersim.Request
		var owner []*genParser
		for _, gp := range pw.parsers {
			if gp.ClockFor != "" {
				continue // a clock twin gets no cases of its own
			}
			p.batch = batch
			for _, rq := range pp.mkReqs(r, gp, p) {
				if nb > 1 {
					rq.ID = fmt.Sprintf("b%d-%s", batch, rq.ID)
				}
				reqs = append(reqs, rq)
				owner = append(owner, gp)
			}
		}
		to := pp.timeout
		if to == 0 {
			to = 120 * time.Second
		}
		outs := runParserCases(pw, reqs, to, env, pp.restart)
		// a child that did not answer in time may just be slow (a loaded machine, a
		// costly case): run the case again, alone, with five times the limit before
		// it counts as a hang
		for i := range outs {
			if outs[i].Status != "hang" {
				continue
			}
			w := &worker{bin: pw.bin, env: env}
			resp, st, detail := pcall(w, reqs[i], 5*to)
			if w.cmd != nil {
				w.in.Close()
				w.kill()
			}
			switch st {
			case callOK:
				outs[i] = pOutcome{Status: "ok", Resp: resp}
				stats["slow_cases_completed_when_rerun_alone"]++
			case callCrashed:
				outs[i] = pOutcome{Status: "crash", Detail: headTail(detail, 3000, 3000)}
			}
		}
		// determinism spot check: one case in twenty is executed again in a fresh
		// process and must give the byte-identical response; a mismatch is a defect
		// of the harness (exit 2), never a verdict
		{
			var idx []int
			var again []*parsersim.Request
			for i := 0; i < len(reqs); i += 20 {
				if outs[i].Status == "ok" {
					idx = append(idx, i)
					again = append(again, reqs[i])
				}
			}
			re := runParserCases(pw, again, to, env, 1)
			verdict := func(r *parsersim.Response) string {
				// what a verdict is made of; simulator decisions and pool statistics may
				// legitimately differ between a warm and a cold process
				var cl []string
				for _, v := range r.Violations {
					cl = append(cl, v.Class)
				}
				return fmt.Sprintf("%d %v %v %v", r.Runs, cl, r.Digests, r.Hashes)
			}
			for k, o := range re {
				if o.Status != "ok" {
					continue
				}
				stats["determinism_spot_checks"]++
				if verdict(outs[idx[k]].Resp) == verdict(o.Resp) {
					continue
				}
				// a third execution, again in a fresh process, tells a harness defect
				// (two fresh processes disagree) from code under test whose behaviour
				// depends on what the process did before
				third := runParserCases(pw, []*parsersim.Request{reqs[idx[k]]}, to, env, 1)
				if third[0].Status == "ok" && verdict(third[0].Resp) == verdict(o.Resp) {
					stats["cases_depending_on_process_history"]++
					fmt.Printf("NOTE: %s: case %s gives another result in a process that ran other cases before than in a fresh process (the code under test keeps state between calls)\n", pp.id, reqs[idx[k]].ID)
					continue
				}
				os.WriteFile("/tmp/verif-nondet-a.json", mustJSON(outs[idx[k]].Resp), 0o644)
				os.WriteFile("/tmp/verif-nondet-b.json", mustJSON(o.Resp), 0o644)
				fatalHarness("the simulation is not deterministic: case %s gave different responses in two fresh processes (saved to /tmp/verif-nondet-{a,b}.json)", reqs[idx[k]].ID)
			}
		}
		if pp.post != nil {
			runs += pp.post(pp, pw, reqs, owner, outs, env, rep, seed, stats)
		}
		for k, v := range summariseStats(outs) {
			if strings.HasPrefix(k, "max_") {
				if v > stats[k] {
					stats[k] = v
				}
			} else {
				stats[k] += v
			}
		}

		for i, o := range outs {
			gp := owner[i]
			cases++
			if o.Status != "ok" {
				class := "driver-" + o.Status
				msg := fmt.Sprintf("the simulation child %s while running %s: %s", o.Status, reqs[i].ID, firstLine(lastFatal(o.Detail)))
				if strings.Contains(o.Detail, "DATA RACE") {
					class = "data-race"
					ex := raceExcerpt(o.Detail)
					msg = "the Go race detector reported a data race under the simulated schedule:\n" + ex
					if !strings.Contains(ex, "/pw/p") && !strings.Contains(ex, "/pw-race/p") {
						// both stacks inside the harness: our defect, never a verdict
						fatalHarness("race report without a frame in a generated parser (harness race):\n%s\n---- raw ----\n%s", ex, o.Detail)
					}
				}
				v := &violation{Property: pp.id, Class: class, Message: msg,
					Attrs: map[string]string{"class": class, "dedupe": class + "|" + gp.Name}, Seed: seed, Case: reqs[i].ID, Kind: "parser",
					Replay: &parserReplay{Grammar: gp.G, Text: gp.Text, Flags: gp.Flags, Request: reqs[i], Race: pp.race, Expected: class}}
				nviol++
				rep.add(v)
				continue
			}
			runs += o.Resp.Runs
			if pp.collect != nil {
				pp.collect(batch, gp, reqs[i], o.Resp)
			}
			if os.Getenv("VERIF_NOTES") != "" {
				for _, n := range o.Resp.Notes {
					fmt.Println("NOTE:", n)
				}
			}
			if pp.nontriv == nil || pp.nontriv(o.Resp) {
				if pp.dkey != nil {
					distinct[pp.dkey(reqs[i], o.Resp)] = true
				} else {
					distinct[fmt.Sprintf("%s|%q|%s", gp.Text, reqs[i].Call.Input, mustJSON(reqs[i].Call.Opts))] = true
				}
			}
			if len(samples) < 4 && o.Resp.Sample != nil && i%(len(outs)/4+1) == 0 {
				samples = append(samples, map[string]any{"case": o.Resp.Sample, "grammar": specSummary(gp)["grammar"]})
			}
			seenClass := map[string]bool{}
			for _, v := range o.Resp.Violations {
				nviol++
				if seenClass[v.Class] {
					continue
				}
				seenClass[v.Class] = true
				attrs := v.Attrs
				if attrs == nil {
					attrs = map[string]string{"class": v.Class}
				}
				if pp.attrs != nil {
					pp.attrs(gp, reqs[i], &v, attrs)
				}
				if attrs["dedupe"] == "" {
					attrs["dedupe"] = v.Class + "|" + attrs["memoize"] + "|" + attrs["recover"] + "|" + attrs["optimized"]
				}
				pv := &violation{Property: pp.id, Class: v.Class, Message: v.Msg, Attrs: attrs, Seed: seed, Case: reqs[i].ID, Kind: "parser"}
				if rep.classify(pv) == "" {
					// every violation that gets a replay file is first reproduced alone in a
					// fresh process and minimised: one per (class, dedupe key), at most ten
					// files, at most three attempts per key
					key := v.Class + "|" + attrs["dedupe"]
					if confirmedKeys[key] || len(confirmedKeys) >= 10 || confirmTries[key] >= 3 {
						continue // counted in violations_before_dedup
					}
					confirmTries[key]++
					mreq, mv := confirmAndMinimise(pw, *reqs[i], v, env)
					if mreq == nil {
						fmt.Printf("NOTE: %s %s in %s did not reproduce in a fresh process; dropped\n", pp.id, v.Class, reqs[i].ID)
						continue
					}
					confirmedKeys[key] = true
					pv.Message = mv.Msg + fmt.Sprintf(" [grammar %s flags %v input %q opts %s]", strings.TrimSpace(specSummary(gp)["grammar"].(string)), gp.Flags, mreq.Call.Input, mustJSON(mreq.Call.Opts))
					if len(mv.Detail) > 0 {
						pv.Message += "\n  detail: " + string(mustJSON(mv.Detail))
					}
					pv.Replay = &parserReplay{Grammar: gp.G, Text: gp.Text, Flags: gp.Flags, Request: mreq, Race: pp.race, Expected: v.Class}
				} else {
					pv.Replay = &parserReplay{Grammar: gp.G, Text: gp.Text, Flags: gp.Flags, Request: reqs[i], Race: pp.race, Expected: v.Class}
				}
				rep.add(pv)
			}
		}
	} // batches
	wall := since(start)
	fk := map[string]int{}
	if pp.faults != nil {
		fk = pp.faults(stats)
	}
	ev := &evidence{PropertyID: pp.id, Tier: tier, Seed: int64(seed), Level: pp.level, WallS: wall, Violations: len(rep.fresh),
		Coverage: map[string]any{
			"evaluations":                     runs,
			"distinct_nontrivial":             len(distinct),
			"rule":                            pp.rule,
			"samples":                         samples,
			"cases":                           cases,
			"grammars":                        grammars,
			"batches":                         nb,
			"stats":                           stats,
			"runs_per_hour":                   perHour(runs, wall),
			"simulated_time":                  "no wall clock in the parser; logical time = expression ticks and instrumentation steps",
			"fault_kinds":                     fk,
			"violations_before_dedup":         nviol,
			"unclaimed_divergence":            stats["unclaimed_divergence"] + stats["unclaimed_divergence_statistics_twin"] + stats["unclaimed_divergence_unoptimized_twin"],
			"known_findings_seen":             rep.known,
			"race_build":                      pp.race,
			"generated_parsers_not_compiling": notCompiling,
			"instrumentation":                 map[string]any{"map_range_sites": len(pw.rewrite.Sites), "steps_inserted": pw.rewrite.Steps, "sync_imports_replaced": pw.rewrite.SyncImports, "debug_prints_redirected": pw.rewrite.FmtPrints},
			"components":                      map[string]any{"real": []string{"pigeon (front-end, builder, goimports) generating each parser", "the complete generated parser runtime"}, "stub": []string{"user code blocks (kernel)", "sync.Pool (simsync)", "map iteration order (ascending)", "goroutine choice (simrt scheduler) where clients run concurrently"}},
		},
		Assumptions: pp.assume,
	}
	writeEvidence(ev)
	code := rep.finish()
	fmt.Printf("%s %s: %d grammars, %d cases, %d simulated parses, %d violations before dedup, %.1fs\n", pp.id, tier, grammars, cases, runs, nviol, wall)
	return code
}

func raceExcerpt(s string) string {
	i := strings.Index(s, "WARNING: DATA RACE")
	if i < 0 {
		return tail(s, 1500)
	}
	s = s[i:]
	if j := strings.Index(s, "=================="); j > 0 {
		s = s[:j]
	}
	if len(s) > 3500 {
		s = s[:3500]
	}
	return s
}

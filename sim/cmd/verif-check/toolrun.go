package main

import (
	"encoding/json"
	"fmt"
	"sort"
	"strings"
	"time"

	"verifsim/tooldriver"
)

// outcome is what the parent knows about one case of a session.
type outcome struct {
	Status string             `json:"status"` // ok, hang, crash, skipped
	Detail string             `json:"detail,omitempty"`
	Res    *tooldriver.Result `json:"res,omitempty"`
}

const caseTimeout = 5 * time.Second

// hangConfirm is how long a case may run alone before it is called a hang.
const hangConfirm = 60 * time.Second

var slowReruns int

// runSession executes the cases in order in one fresh child process. After a
// hang or crash the remaining cases run in another fresh child (they are
// marked so, because their process history differs).
func runSession(tw *toolWorld, cases []tooldriver.Case, timeout time.Duration) []outcome {
	out := make([]outcome, len(cases))
	w := &worker{bin: tw.bin, env: goEnv()}
	defer func() {
		if w.cmd != nil {
			w.in.Close()
			w.kill()
		}
	}()
	for i := range cases {
		line, st, detail := w.call(&cases[i], timeout)
		switch st {
		case callTimeout:
			// a slow case under load is not a hang: run it again, alone in a fresh
			// process, with a generous limit, before calling it one
			if timeout < hangConfirm {
				w2 := &worker{bin: tw.bin, env: goEnv()}
				line2, st2, detail2 := w2.call(&cases[i], hangConfirm)
				if w2.cmd != nil {
					w2.in.Close()
					w2.kill()
				}
				if st2 == callOK {
					var res tooldriver.Result
					if err := json.Unmarshal(line2, &res); err != nil {
						fatalHarness("bad child response: %v: %.200s", err, line2)
					}
					out[i] = outcome{Status: "ok", Res: &res, Detail: "slow: completed when re-run alone"}
					slowReruns++
					continue
				}
				detail = detail2
			}
			out[i] = outcome{Status: "hang", Detail: tail(detail, 600)}
			continue
		case callCrashed:
			out[i] = outcome{Status: "crash", Detail: headTail(detail, 1500, 1500)}
			continue
		}
		var res tooldriver.Result
		if err := json.Unmarshal(line, &res); err != nil {
			fatalHarness("bad child response: %v: %.200s", err, line)
		}
		out[i] = outcome{Status: "ok", Res: &res}
	}
	return out
}

func headTail(s string, h, t int) string {
	if len(s) <= h+t {
		return s
	}
	return s[:h] + "\n[...]\n" + s[len(s)-t:]
}

func tail(s string, n int) string {
	if len(s) > n {
		return s[len(s)-n:]
	}
	return s
}

// runSessions runs many sessions on the worker count, results by index.
func runSessions(tw *toolWorld, sessions [][]tooldriver.Case) [][]outcome {
	res := make([][]outcome, len(sessions))
	done := make(chan int, len(sessions))
	sem := make(chan struct{}, workers())
	for i := range sessions {
		go func(i int) {
			sem <- struct{}{}
			res[i] = runSession(tw, sessions[i], caseTimeout)
			<-sem
			done <- i
		}(i)
	}
	for range sessions {
		<-done
	}
	return res
}

// signature is the externally visible behaviour of one run, as a string.
func runSignature(r *tooldriver.Run) string {
	var b strings.Builder
	fmt.Fprintf(&b, "exit=%d called=%v panic=%q stdout=%s/%d stderr=%s/%d", r.Exit, r.ExitCalled, firstLine(r.Panic), r.Stdout.SHA, r.Stdout.Len, r.Stderr.SHA, r.Stderr.Len)
	names := make([]string, 0, len(r.Files))
	for n := range r.Files {
		names = append(names, n)
	}
	sort.Strings(names)
	for _, n := range names {
		fmt.Fprintf(&b, " %s=%s/%d", n, r.Files[n].SHA, r.Files[n].Len)
	}
	return b.String()
}

func firstLine(s string) string {
	if i := strings.IndexByte(s, '\n'); i >= 0 {
		return s[:i]
	}
	return s
}

func outcomeSignatures(o outcome) []string {
	if o.Status != "ok" {
		return []string{o.Status}
	}
	var s []string
	for i := range o.Res.Runs {
		s = append(s, runSignature(&o.Res.Runs[i]))
	}
	return s
}

package main

import (
	"encoding/json"
	"fmt"
	"sort"
	"strings"
	"sync"
	"sync/atomic"
	"time"

	"verifsim/tooldriver"
)

// outcome is what the parent knows about one case of a session.
type outcome struct {
	Status string             `json:"status"` // ok, hang, crash, skipped
	Detail string             `json:"detail,omitempty"`
	Res    *tooldriver.Result `json:"res,omitempty"`
}

const caseTimeout = 5 * time.Second

// hangConfirm is how long a case may run alone before it is called a hang.
const hangConfirm = 60 * time.Second

var slowReruns int
var confirmedHangs int32

// runSession executes the cases in order in one fresh child process. After a
// hang or crash the remaining cases run in another fresh child (they are
// marked so, because their process history differs).
func runSession(tw *toolWorld, cases []tooldriver.Case, timeout time.Duration) []outcome {
	out := make([]outcome, len(cases))
	w := &worker{bin: tw.bin, env: goEnv()}
	defer func() {
		if w.cmd != nil {
			w.in.Close()
			w.kill()
		}
	}()
	general := timeout
	for i := range cases {
		timeout := general
		if ws := time.Duration(cases[i].WallS) * time.Second; ws > timeout {
			timeout = ws // a big input: its own, size-dependent limit
		}
		line, st, detail := w.call(&cases[i], timeout)
		switch st {
		case callTimeout:
			// a slow case under load is not a hang: run it again, alone in a fresh
			// process, with a generous limit, before calling it one
			if timeout < hangConfirm && atomic.LoadInt32(&confirmedHangs) >= 3 {
				// enough confirmed hangs to report; do not spend a minute on each further one
				out[i] = outcome{Status: "slow-unconfirmed", Detail: "exceeded the watchdog; not re-run because three hangs were already confirmed in this run"}
				continue
			}
			if timeout < hangConfirm {
				w2 := &worker{bin: tw.bin, env: goEnv()}
				line2, st2, detail2 := w2.call(&cases[i], hangConfirm)
				if w2.cmd != nil {
					w2.in.Close()
					w2.kill()
				}
				if st2 == callOK {
					var res tooldriver.Result
					if err := json.Unmarshal(line2, &res); err != nil {
						fatalHarness("bad child response: %v: %.200s", err, line2)
					}
					out[i] = outcome{Status: "ok", Res: &res, Detail: "slow: completed when re-run alone"}
					slowReruns++
					continue
				}
				detail = detail2
				atomic.AddInt32(&confirmedHangs, 1)
			}
			out[i] = outcome{Status: "hang", Detail: tail(detail, 600)}
			continue
		case callCrashed:
			out[i] = outcome{Status: "crash", Detail: headTail(detail, 1500, 1500)}
			continue
		}
		var res tooldriver.Result
		if err := json.Unmarshal(line, &res); err != nil {
			fatalHarness("bad child response: %v: %.200s", err, line)
		}
		out[i] = outcome{Status: "ok", Res: &res}
		noteSteps(&cases[i], &res)
	}
	return out
}

// logical time used by the tool-world runs of this process (instrumentation
// steps of pigeon's own packages), for the evidence and for sizing the step cap
var stepStats struct {
	sync.Mutex
	runs, capHits     int64
	total, max        int64
	maxPerByte        float64
	maxAt, maxPerByAt string
	sched             simtaskTotals
}

type simtaskTotals struct{ Spawned, Switches, TimersFired, EarlyFires, Polls, RunsWithTasks int64 }

// caseInputLen is the length of the grammar text the case delivers.
func caseInputLen(c *tooldriver.Case) int {
	if g, ok := c.Files["grammar.peg"]; ok {
		return len(g)
	}
	return len(c.Stdin)
}

// stepCapFor is the logical-time bound of one tool run on a grammar of n
// bytes: 5 million steps plus 50 000 per byte. The repository's largest
// grammar needs 3.2 million in all; the costliest inputs of the thorough tier
// stay below 2 200 steps per byte (evidence: logical_time).
func stepCapFor(n int) int64 { return 5_000_000 + 50_000*int64(n+64) }

func noteSteps(c *tooldriver.Case, res *tooldriver.Result) {
	stepStats.Lock()
	defer stepStats.Unlock()
	n := caseInputLen(c)
	for i := range res.Runs {
		st := res.Runs[i].Steps
		sc := res.Runs[i].Sched
		stepStats.sched.Spawned += int64(sc.Spawned)
		stepStats.sched.Switches += int64(sc.Switches)
		stepStats.sched.TimersFired += int64(sc.TimersFired)
		stepStats.sched.EarlyFires += int64(sc.EarlyFires)
		stepStats.sched.Polls += int64(sc.Polls)
		if sc.Spawned > 0 {
			stepStats.sched.RunsWithTasks++
		}
		stepStats.runs++
		stepStats.total += st
		if res.Runs[i].StepCapHit {
			stepStats.capHits++
			continue
		}
		if st > stepStats.max {
			stepStats.max, stepStats.maxAt = st, c.ID
		}
		if per := float64(st) / float64(n+64); per > stepStats.maxPerByte {
			stepStats.maxPerByte, stepStats.maxPerByAt = per, c.ID
		}
	}
}

func stepEvidence() map[string]any {
	stepStats.Lock()
	defer stepStats.Unlock()
	return map[string]any{"runs": stepStats.runs, "steps_total": stepStats.total, "steps_max_in_one_run": stepStats.max, "steps_max_case": stepStats.maxAt,
		"steps_per_input_byte_max": stepStats.maxPerByte, "steps_per_input_byte_max_case": stepStats.maxPerByAt, "runs_stopped_by_step_cap": stepStats.capHits}
}

func headTail(s string, h, t int) string {
	if len(s) <= h+t {
		return s
	}
	return s[:h] + "\n[...]\n" + s[len(s)-t:]
}

func tail(s string, n int) string {
	if len(s) > n {
		return s[len(s)-n:]
	}
	return s
}

// runSessions runs many sessions on the worker count, results by index.
func runSessions(tw *toolWorld, sessions [][]tooldriver.Case) [][]outcome {
	res := make([][]outcome, len(sessions))
	done := make(chan int, len(sessions))
	sem := make(chan struct{}, workers())
	for i := range sessions {
		go func(i int) {
			sem <- struct{}{}
			res[i] = runSession(tw, sessions[i], caseTimeout)
			<-sem
			done <- i
		}(i)
	}
	for range sessions {
		<-done
	}
	return res
}

// genSignature is what C19 compares: exit status, generated bytes (stdout and
// files) and whether a panic escaped - not the text written to stderr, which
// the property (the generated file is a function of grammar and flags) does
// not speak about.
func genSignature(r *tooldriver.Run) string {
	var b strings.Builder
	fmt.Fprintf(&b, "exit=%d called=%v panic=%q stdout=%s/%d", r.Exit, r.ExitCalled, firstLine(r.Panic), r.Stdout.SHA, r.Stdout.Len)
	// only the file the tool itself opened for writing: a file that was lying at
	// the -o path before and was never touched (-x, a rejected grammar) is not output
	if r.OutFile != "" {
		fmt.Fprintf(&b, " %s=%s/%d", r.OutFile, r.Files[r.OutFile].SHA, r.Files[r.OutFile].Len)
	}
	return b.String()
}

// signature is the externally visible behaviour of one run, as a string.
func runSignature(r *tooldriver.Run) string {
	var b strings.Builder
	fmt.Fprintf(&b, "exit=%d called=%v panic=%q stdout=%s/%d stderr=%s/%d", r.Exit, r.ExitCalled, firstLine(r.Panic), r.Stdout.SHA, r.Stdout.Len, r.Stderr.SHA, r.Stderr.Len)
	names := make([]string, 0, len(r.Files))
	for n := range r.Files {
		names = append(names, n)
	}
	sort.Strings(names)
	for _, n := range names {
		fmt.Fprintf(&b, " %s=%s/%d", n, r.Files[n].SHA, r.Files[n].Len)
	}
	return b.String()
}

func firstLine(s string) string {
	if i := strings.IndexByte(s, '\n'); i >= 0 {
		return s[:i]
	}
	return s
}

func outcomeSignatures(o outcome) []string {
	if o.Status != "ok" {
		return []string{o.Status}
	}
	var s []string
	for i := range o.Res.Runs {
		s = append(s, genSignature(&o.Res.Runs[i]))
	}
	return s
}

// schedEvidence describes the goroutine/channel/clock seam of the tool world:
// what the instrumented packages contain and what the scheduler did.
func schedEvidence(tw *toolWorld) map[string]any {
	stepStats.Lock()
	defer stepStats.Unlock()
	r := tw.rewrite
	t := stepStats.sched
	return map[string]any{
		"go_statements_in_main_ast_builder": r.GoStmts, "timer_calls": r.TimerCalls, "task_seam_active": r.TaskSeamActive,
		"unsupported_constructs": r.TaskUnsupported, "channel_operations_rewritten": r.ChanOps, "select_statements_rewritten": r.Selects, "time_calls_rewritten": r.TimeCalls,
		"runs_with_goroutines": t.RunsWithTasks, "tasks_spawned": t.Spawned, "task_switches": t.Switches, "timers_fired": t.TimersFired,
		"timers_fired_while_tasks_were_runnable": t.EarlyFires, "blocked_polls": t.Polls,
		"sync_uses": r.SyncUses, "environment_reads_in_main_ast_builder": r.EnvReads,
		"note": "the seam is active when main/ast/builder contain go statements, timers or uses of package sync (the pinned tree: only the sync.Pool of the generated front-end parser, no go statement, no timer): every goroutine of those packages, and the second build of the concurrent library-style double build (C19), is a task of a seeded cooperative scheduler (package simtask), preempted at instrumentation steps; locks of package sync are cooperative",
	}
}

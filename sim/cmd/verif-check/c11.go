package main

import (
	"fmt"

	"verifsim/gen"
	"verifsim/parsersim"
)

// C11: error contract under error and panic injection at code-block sites.

var propC11 = &pProp{
	id:     "C11",
	level:  "fault_enumeration",
	rule:   "one evaluation = one simulated Parse call of a real generated parser; per (grammar, input, options) case the fault-free execution is recorded and then every single fault placement (each code-block invocation of that history x {returned error, panic with an error, with a string, with another type}) is injected when the history has <= 60 events (sampled above), plus seeded multi-fault sets (2-6 faults incl. identical messages at one position for de-duplication); each faulted run is judged against its fault-free twin: nothing else changes (history up to the first panic, value), the error is the documented list of parser errors whose Inner is pointer-identical to the injected value, messages are dedupe(injected errors in order) with file:line:col (offset): rule <display name or name> prefixes (action position = match start seen by the block; predicate/state offset from the reference model), a recovered panic is last with a nil value, Recover(false) lets it reach the caller; distinct_nontrivial = distinct (grammar, input, options) cases in which at least one fault fired",
	assume: []string{"code-block outcomes are keyed by (site, n-th invocation) so a faulted run and its twin make identical decisions except at the fault", "inputs are valid UTF-8, left recursion only in directly left-recursive rules, for which the reference model says which errors the abandoned growth attempt takes with it; the only non-injected error is the synthetic no-match error", "where the reference model does not apply (memoised runs, throw/recover grammars) predicate/state error positions are checked for shape and rule only"},
	bias:   specBias{nullableLoops: 0, leftRec: 15, lrDirect: true, states: 40, preds: 70, actions: 90, throws: 30, optimized: 35, display: 40, unicode: 40, topLoop: 7, deepNest: 7, uniNames: 15},
	tier: func(tier string) pParams {
		if tier == "thorough" {
			return pParams{batches: 8, grammars: 400, inputs: 8, optSets: 3, extra: 40}
		}
		return pParams{grammars: 160, inputs: 4, optSets: 2, extra: 12}
	},
	accept: func(gp *genParser) bool {
		return gp.G.HasKind(gen.Action) || gp.G.HasKind(gen.AndCode) || gp.G.HasKind(gen.NotCode) || gp.G.HasKind(gen.State)
	},
	mkReqs: func(r *rng, gp *genParser, p pParams) []*parsersim.Request {
		var reqs []*parsersim.Request
		for ii, in := range drawInputs(r, gp.G, p.inputs, 36) {
			if r.chance(1, 8) {
				// a text file that begins with a byte order mark: one more character
				// of line 1 (U+FEFF), three bytes
				in = append([]byte("\xef\xbb\xbf"), in...)
			}
			for k := 0; k < p.optSets; k++ {
				o := drawOpts(r, gp, 30, 25)
				o.AllowInvalidUTF8 = false
				o.MaxExpr = 0
				if r.chance(1, 5) {
					// a generous budget that never runs out (a server's safety net): it
					// must not change anything about errors and panics
					o.MaxExpr = []uint64{1 << 30, 1 << 40, 1<<63 + 5}[r.intn(3)]
				}
				if gp.Has["InitState"] && r.chance(1, 4) {
					o.InitState = [][2]string{{"k0", "init"}}
				}
				if r.chance(1, 3) {
					// file names that look like format strings, positions or nothing
					o.Filename = []string{"<empty>", "dir/a b.peg", "report_100%_done.txt", "my%20file%d.txt", `C:\g:1:2 (3): rule X.peg`, "é.peg"}[r.intn(6)]
				}
				if r.chance(1, 6) {
					o.UseFile, o.UseReader = true, false // ParseFile: the name has a directory part
				}
				if gp.LeftRec {
					o.Memoize = false // the model (needed to know which errors seed growing keeps) has no memo
				}
				reqs = append(reqs, &parsersim.Request{ID: fmt.Sprintf("c11-%s-i%d-o%d", gp.Name, ii, k), Kind: "c11", Parser: gp.Name,
					Call: parsersim.Call{Input: in, Opts: o, Plan: drawPlan(r, gp.HasState)},
					Pool: drawPool(r, false), Seed: r.u64(), MultiSets: p.extra, SingleMax: 60, StepCap: 400000})
			}
		}
		if gp.G.IsDeepNest() {
			// deep parses: hundreds of rules active at once when a block fails
			for k := 0; k < 2; k++ {
				o := drawOpts(r, gp, 20, 25)
				o.AllowInvalidUTF8, o.MaxExpr, o.Debug = false, 0, false
				plan := drawPlan(r, gp.HasState)
				plan.MaxEvents = 4000
				depth := []int{40, 300, 700}[r.intn(3)]
				reqs = append(reqs, &parsersim.Request{ID: fmt.Sprintf("c11-%s-deep%d", gp.Name, k), Kind: "c11", Parser: gp.Name,
					Call: parsersim.Call{Input: gp.G.SampleNestedInput(r2{r}, depth), Opts: o, Plan: plan},
					Pool: drawPool(r, false), Seed: r.u64(), MultiSets: 6, SingleMax: 40, StepCap: 20000000})
			}
		}
		if gp.G.IsTopLoop() {
			// long parses: hundreds to thousands of rounds, a large share of the
			// code blocks returning errors (thousands of error records in one call)
			for k := 0; k < 2; k++ {
				o := drawOpts(r, gp, 20, 25)
				o.AllowInvalidUTF8, o.MaxExpr, o.Debug = false, 0, false
				plan := drawPlan(r, gp.HasState)
				plan.MaxEvents = 12000
				plan.ErrPct = []int{100, 60, 25}[r.intn(3)]
				rounds := []int{300, 700, 1200, 2500}[r.intn(4)]
				reqs = append(reqs, &parsersim.Request{ID: fmt.Sprintf("c11-%s-long%d", gp.Name, k), Kind: "c11", Parser: gp.Name,
					Call: parsersim.Call{Input: gp.G.SampleLongInput(r2{r}, rounds), Opts: o, Plan: plan},
					Pool: drawPool(r, false), Seed: r.u64(), MultiSets: 3, SingleMax: 8, StepCap: 60000000})
			}
		}
		return reqs
	},
	nontriv: func(o *parsersim.Response) bool {
		for k, v := range o.Stats {
			if len(k) > 6 && k[:6] == "fired_" && v > 0 {
				return true
			}
		}
		return false
	},
	faults: func(st map[string]int) map[string]int {
		out := map[string]int{}
		for k, v := range st {
			if len(k) > 6 && k[:6] == "fired_" {
				out[k[6:]] = v
			}
		}
		out["budget_cut_with_errors_recorded_before"] = st["budget_cut_runs_with_errors_before_the_cut"]
		out["budget_cut"] = st["budget_cut_runs"]
		return out
	},
}

func runC11(tier string) int { return runParserProp(propC11, tier) }

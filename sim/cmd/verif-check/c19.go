package main

import (
	"fmt"
	"sort"
	"strings"
	"time"

	"verifsim/simmap"
	"verifsim/simos"
	"verifsim/tooldriver"
)

// C19: generation is deterministic. Tool world, map-order seam, sessions of
// different builds inside one process.

type c19Params struct {
	repoFlagSets int // flag sets per repository grammar
	gen          int // generated grammars
	genLR        int // generated left-recursive / free-reference grammars
	mut          int // mutated grammars
	orders       int // map orders per input (>= 4)
	sessionLen   int
}

func c19Tier(tier string) c19Params {
	if tier == "thorough" {
		return c19Params{repoFlagSets: 6, gen: 1200, genLR: 2400, mut: 400, orders: 16, sessionLen: 24}
	}
	return c19Params{repoFlagSets: 1, gen: 90, genLR: 280, mut: 36, orders: 6, sessionLen: 16}
}

// c19Replay is the replay file body: a list of sessions (each run in a fresh
// process) whose runs must all agree.
type c19Replay struct {
	Input    string              `json:"input_name"`
	Grammar  string              `json:"grammar"`
	Sessions [][]tooldriver.Case `json:"sessions"`
	// Target lists (session, case) of the cases that must agree; other cases
	// are only history.
	Target [][2]int `json:"target"`
}

type c19Order struct {
	mode int
	seed uint64
}

func c19Orders(r *rng, k int) []c19Order {
	o := []c19Order{{simmap.Asc, 0}, {simmap.Desc, 0}, {simmap.PermGlobal, r.u64()}, {simmap.PermVarying, r.u64()}}
	for len(o) < k {
		m := []int{simmap.PermStable, simmap.PermVarying, simmap.PermGlobal}[r.intn(3)]
		o = append(o, c19Order{m, r.u64()})
	}
	return o[:k]
}

func c19Inputs(seed uint64, p c19Params, src string) []toolInput {
	var ins []toolInput
	r := newRng(seed, hashLabel("c19-inputs"))
	for _, g := range repoGrammars(src) {
		for k := 0; k < p.repoFlagSets; k++ {
			in := g
			lr := strings.Contains(g.Name, "left_recursion")
			in.Flags = drawFlags(r, nil, lr)
			if k == 0 && !contains(in.Flags, "-optimize-grammar") && r.chance(1, 2) {
				in.Flags = append(in.Flags, "-optimize-grammar")
			}
			ins = append(ins, in)
		}
	}
	for i := 0; i < p.gen; i++ {
		in, _ := genToolGrammar(r, false)
		in.Flags = drawFlags(r, in.Rules, false)
		ins = append(ins, in)
	}
	for i := 0; i < p.genLR; i++ {
		var in toolInput
		switch r.intn(3) {
		case 0:
			in, _ = genToolGrammar(r, true)
		default:
			in = genFreeRefGrammar(r)
		}
		in.Flags = drawFlags(r, in.Rules, true)
		ins = append(ins, in)
	}
	for i := 0; i < p.gen/6; i++ {
		in := genOptShape(r)
		in.Flags = drawFlags(r, in.Rules, false)
		if !contains(in.Flags, "-optimize-grammar") {
			in.Flags = append(in.Flags, "-optimize-grammar")
		}
		ins = append(ins, in)
	}
	for i := 0; i < p.gen/10+lrShapeCount; i++ {
		// every special shape once (names that collide once digits are appended,
		// left recursion under recovery, null cycles, ...), then drawn ones
		in := genLRRecoveryN(r, i)
		in.Flags = drawFlags(r, in.Rules, true)
		if i < lrShapeCount {
			// as written: the optimizer would remove the rules nobody references,
			// and -x would write nothing
			in.Flags = removeArgs(removeArgs(in.Flags, "-optimize-grammar", 1), "-x", 1)
		}
		ins = append(ins, in)
	}
	// library-style double builds of a third of the inputs so far
	for i, n := 0, len(ins); i < n; i++ {
		if r.chance(1, 3) && !contains(ins[i].Flags, "-x") {
			in := ins[i]
			in.Name = "rebuild(" + in.Name + ")"
			in.Class = "rebuild"
			in.Rebuild = true
			ins = append(ins, in)
		}
	}
	base := len(ins)
	for i := 0; i < p.mut; i++ {
		src := ins[r.intn(base)]
		in := toolInput{Name: "mut(" + src.Name + ")", Class: "mut", Grammar: mutateGrammar(r, src.Grammar), Flags: src.Flags}
		ins = append(ins, in)
	}
	for i := 0; i < p.mut/2+4; i++ {
		// the same texts with carriage returns before the line feeds
		src := ins[r.intn(base)]
		if src.Rebuild {
			continue
		}
		ins = append(ins, crlfVariant(r, src))
	}
	return ins
}

// c19Check runs all cases of the sessions and returns, per input, the set of
// distinct signatures with one witness (session, case, run) each.
type c19Witness struct {
	sess, idx, run int
	sig            string
}

func runC19(tier string) int {
	start := time.Now()
	seed := envSeed()
	p := c19Tier(tier)
	sc := newScratch("c19")
	tw := buildToolWorld(sc)
	ins := c19Inputs(seed, p, tw.dir)
	rep := newReporter("C19")

	r := newRng(seed, hashLabel("c19-sessions"))
	type ref struct{ input, order int }
	var all []ref
	orders := make([][]c19Order, len(ins))
	deliv := make([]delivery, len(ins))
	for i := range ins {
		orders[i] = c19Orders(r, p.orders)
		deliv[i] = delivery{viaFile: r.chance(1, 2), outFile: r.chance(1, 2)}
		for k := range orders[i] {
			all = append(all, ref{i, k})
		}
	}
	mk := func(rf ref, tag string) tooldriver.Case {
		o := orders[rf.input][rf.order]
		d := deliv[rf.input]
		// the -o path sometimes already holds a longer file from an earlier run:
		// what is generated must not depend on it
		d.stale = d.outFile && rf.order%3 == 1
		// every other order reads the grammar in short, seeded chunks (a pipe whose
		// writer pauses, a slow disk): how the bytes arrive is a schedule, not an input
		f := simos.NoFaults()
		if rf.order%2 == 1 {
			f.InChunkSeed = o.seed | 1
		}
		// ... and every order is another machine: number of CPUs, environment
		// variables, host name, process id (pigeon asks for none of them on the
		// pinned tree; see evidence environment_reads)
		f.EnvSeed = o.seed>>3 | 1
		// ... and the grammar file has whatever name its owner gave it (the text and
		// the flags are the input, the name is not)
		if d.viaFile && !ins[rf.input].Rebuild && rf.order%4 == 3 {
			d.inName = "src/calc.v2.peg"
		}
		c := makeCase(fmt.Sprintf("%s-i%d-o%d", tag, rf.input, rf.order), ins[rf.input], d, f, o.mode, o.seed, 2)
		if ins[rf.input].Rebuild {
			// library use with a fault in the process history, and with a build
			// made before the grammar value is optimised (derived from the order's
			// own seed, so that the case is a function of (input, order))
			switch v := (o.seed>>7 + uint64(rf.order)) % 4; {
			case v == 1:
				c.RebuildVariant, c.RebuildFailAt = 1, int((o.seed>>16)%40000)
			case v == 2 && contains(ins[rf.input].Flags, "-optimize-grammar"):
				c.RebuildVariant = 2
			case v == 3 || v == 2:
				c.RebuildVariant = 3 // two builds at the same time
			}
		}
		return c
	}
	var sessions [][]tooldriver.Case
	var owner [][]ref
	for pass := 0; pass < 2; pass++ {
		perm := append([]ref(nil), all...)
		for i := len(perm) - 1; i > 0; i-- {
			j := r.intn(i + 1)
			perm[i], perm[j] = perm[j], perm[i]
		}
		for i := 0; i < len(perm); i += p.sessionLen {
			j := i + p.sessionLen
			if j > len(perm) {
				j = len(perm)
			}
			var s []tooldriver.Case
			for _, rf := range perm[i:j] {
				s = append(s, mk(rf, fmt.Sprintf("p%d", pass)))
			}
			sessions = append(sessions, s)
			owner = append(owner, append([]ref(nil), perm[i:j]...))
		}
	}
	results := runSessions(tw, sessions)

	// group by input
	byInput := make([]map[string]c19Witness, len(ins))
	runs, permuted2, permuted3 := 0, 0, 0
	chunkedRuns, concurrentRuns := 0, 0
	siteHits := map[int]int{}
	outcomesByClass := map[string]int{}
	hangs := 0
	for si, outs := range results {
		for ci, o := range outs {
			rf := owner[si][ci]
			if byInput[rf.input] == nil {
				byInput[rf.input] = map[string]c19Witness{}
			}
			if o.Status == "slow-unconfirmed" {
				continue // no verdict from a case that was neither completed nor confirmed as a hang
			}
			sigs := outcomeSignatures(o)
			if o.Status == "hang" {
				hangs++
			}
			for ri, sg := range sigs {
				runs++
				if _, ok := byInput[rf.input][sg]; !ok {
					byInput[rf.input][sg] = c19Witness{si, ci, ri, sg}
				}
			}
			if o.Res != nil {
				for _, run := range o.Res.Runs {
					if run.Fired.ShortReads > 0 {
						chunkedRuns++
					}
					if run.Sched.Spawned > 0 {
						concurrentRuns++
					}
					if run.Map.Ranges2 > 0 {
						permuted2++
					}
					if run.Map.Ranges3 > 0 {
						permuted3++
					}
					for s, n := range run.Map.SiteHits {
						if n > 0 {
							siteHits[s] += n
						}
					}
				}
			}
		}
	}
	distinctBehaviours := map[string]bool{}
	nontrivial := 0
	for i := range ins {
		cls := "accepted"
		for sg := range byInput[i] {
			distinctBehaviours[ins[i].Class+"|"+sg] = true
			if !strings.HasPrefix(sg, "exit=0 ") {
				cls = "rejected"
			}
			if strings.Contains(sg, "panic=\"") && !strings.Contains(sg, "panic=\"\"") {
				cls = "panicked"
			}
		}
		outcomesByClass[ins[i].Class+"/"+cls]++
	}
	// an input is non-trivial when at least one of its runs iterated a permuted map with >= 2 keys
	ntInputs := map[int]bool{}
	for si, outs := range results {
		for ci, o := range outs {
			if o.Res == nil {
				continue
			}
			for _, run := range o.Res.Runs {
				if run.Map.Ranges2 > 0 {
					ntInputs[owner[si][ci].input] = true
				}
			}
		}
	}
	ntSigs := map[string]bool{}
	for i := range ins {
		if ntInputs[i] {
			ntSigs[string(ins[i].Grammar)+"|"+strings.Join(ins[i].Flags, " ")] = true
		}
	}
	nontrivial = len(ntSigs)

	violations := 0
	unreproduced := 0
	for i := range ins {
		if len(byInput[i]) <= 1 {
			continue
		}
		violations++
		if violations > 6 {
			// the first few are minimised and reported; the count is in the evidence
			continue
		}
		v := c19Minimise(tw, seed, i, ins[i], byInput[i], sessions)
		if v == nil {
			unreproduced++
			fmt.Printf("NOTE: C19 input %d (%s): a difference between runs did not reproduce in fresh processes; dropped\n", i, ins[i].Name)
			continue
		}
		rep.add(v)
	}

	// evidence
	var samples []any
	for _, i := range []int{0, len(ins) / 3, len(ins) / 2, len(ins) - 1} {
		if i >= 0 && i < len(ins) {
			var sig string
			for s := range byInput[i] {
				sig = s
			}
			samples = append(samples, map[string]any{"input": ins[i].Name, "class": ins[i].Class, "flags": ins[i].Flags, "grammar_head": head(string(ins[i].Grammar), 300), "orders": len(orders[i]), "signature": sig})
		}
	}
	var sites []map[string]any
	for _, s := range tw.rewrite.Sites {
		sites = append(sites, map[string]any{"site": s.ID, "where": fmt.Sprintf("%s:%d %s", s.File, s.Line, s.Func), "ranges_with_2plus_keys": siteHits[s.ID]})
	}
	wall := since(start)
	ev := &evidence{PropertyID: "C19", Tier: tier, Seed: int64(seed), Level: "exploration", WallS: wall, Violations: len(rep.fresh),
		Coverage: map[string]any{
			"evaluations":                         runs,
			"distinct_nontrivial":                 nontrivial,
			"rule":                                "one evaluation = one in-process run of the real pigeon main() under one seeded map-iteration order; each (grammar, flags) input is run under " + fmt.Sprint(p.orders) + " orders x 2 sessions (different predecessor builds in the same process) x 2 immediate repeats and all runs must produce identical exit status, stdout, stderr and output file; distinct_nontrivial = distinct (grammar text, flags) inputs for which at least one permuted range over a map with >= 2 keys was executed",
			"samples":                             samples,
			"inputs":                              len(ins),
			"inputs_by_class_and_verdict":         outcomesByClass,
			"sessions":                            len(sessions),
			"runs_with_permuted_range_2plus_keys": permuted2,
			"runs_with_permuted_range_3plus_keys": permuted3,
			"map_range_sites":                     sites,
			"scheduler_seam":                      schedEvidence(tw),
			"logical_time":                        stepEvidence(),
			"distinct_behaviours":                 len(distinctBehaviours),
			"hangs":                               hangs,
			"runs_per_hour":                       perHour(runs, wall),
			"simulated_time":                      "no clock in pigeon; logical time only (one run = one complete generation)",
			"fault_kinds":                         map[string]int{"map_order_permutation": permuted2, "in_process_predecessor_builds": len(all) * 2, "runs_with_short_read_chunks": chunkedRuns, "runs_on_a_machine_drawn_from_the_seed": runs, "runs_with_a_second_build_at_the_same_time": concurrentRuns},
			"inputs_with_divergent_runs":          violations,
			"known_findings_seen":                 rep.known,
			"components":                          map[string]any{"real": []string{"main.go", "pigeon.go (front-end)", "ast (optimizer)", "builder (left-recursion analysis, code generation)", "golang.org/x/tools/imports"}, "stub": []string{"os files/streams/exit, environment reads (simos)", "map iteration order (simmap)", "goroutine choice and package sync for the second build of concurrent double builds (simtask)"}},
		},
		Assumptions: []string{"map iteration order, read chunking, what the process is told about its machine and (for library use) another build at the same time are the nondeterminism a generation can meet; time, goroutines and environment reads of main/ast/builder are counted by the instrumenter (see scheduler_seam) and answered by the simulator", "orders are sampled, not enumerated", "goimports (linked unmodified) is deterministic for a fixed module cache"},
	}
	writeEvidence(ev)
	code := rep.finish()
	fmt.Printf("C19 %s: %d inputs, %d runs, %d sessions, %d inputs non-trivial, %d divergent, %.1fs\n", tier, len(ins), runs, len(sessions), nontrivial, violations, wall)
	return code
}

func head(s string, n int) string {
	if len(s) > n {
		return s[:n] + "…"
	}
	return s
}

// c19Minimise builds the smallest replay it can: two single-case sessions if
// the divergence survives in fresh processes, otherwise the two full
// sessions; then it reduces the grammar text line by line.
func c19Minimise(tw *toolWorld, seed uint64, idx int, in toolInput, sigs map[string]c19Witness, sessions [][]tooldriver.Case) *violation {
	var ws []c19Witness
	for _, w := range sigs {
		ws = append(ws, w)
	}
	sort.Slice(ws, func(i, j int) bool {
		if ws[i].sess != ws[j].sess {
			return ws[i].sess < ws[j].sess
		}
		return ws[i].idx < ws[j].idx
	})
	a, b := ws[0], ws[1]
	ca, cb := sessions[a.sess][a.idx], sessions[b.sess][b.idx]
	class := "output-differs"
	if strings.SplitN(a.sig, " ", 2)[0] != strings.SplitN(b.sig, " ", 2)[0] {
		class = "verdict-differs"
	}
	differs := func(rp *c19Replay) bool {
		res := make([][]outcome, len(rp.Sessions))
		for i, s := range rp.Sessions {
			res[i] = runSession(tw, s, caseTimeout)
		}
		set := map[string]bool{}
		for _, t := range rp.Target {
			for _, sg := range outcomeSignatures(res[t[0]][t[1]]) {
				set[sg] = true
			}
		}
		return len(set) > 1
	}
	// 1. the two cases alone, each in a fresh process
	rp := &c19Replay{Input: in.Name, Grammar: string(in.Grammar), Sessions: [][]tooldriver.Case{{ca}, {cb}}, Target: [][2]int{{0, 0}, {1, 0}}}
	kind := "map-order"
	pair := func(x, y tooldriver.Case) *c19Replay {
		return &c19Replay{Input: in.Name, Grammar: string(in.Grammar), Sessions: [][]tooldriver.Case{{x}, {y}}, Target: [][2]int{{0, 0}, {1, 0}}}
	}
	if ca.GrammarFile != cb.GrammarFile && ca.GrammarFile != "" && cb.GrammarFile != "" && differs(rp) {
		// the grammar was read under two names: with the same name (and the same
		// map order) on both sides, is the difference gone?
		c0 := cb
		c0.MapMode, c0.MapSeed = ca.MapMode, ca.MapSeed
		if differs(pair(ca, c0)) {
			cn := renameGrammar(c0, ca.GrammarFile)
			if !differs(pair(ca, cn)) {
				rp, kind = pair(ca, c0), "grammar-file-name"
			}
		}
	}
	if kind == "map-order" && (ca.Faults.InChunkSeed != cb.Faults.InChunkSeed || ca.Faults.EnvSeed != cb.Faults.EnvSeed) && differs(rp) {
		// the two runs also differ in how the grammar bytes arrived and in what
		// the process was told about its machine. Make the sides equal one thing
		// at a time: map order first, then the read chunks, then the machine.
		c1 := cb
		c1.MapMode, c1.MapSeed = ca.MapMode, ca.MapSeed
		if differs(pair(ca, c1)) {
			c2 := c1
			c2.Faults.InChunkSeed = ca.Faults.InChunkSeed
			if !differs(pair(ca, c2)) {
				rp, kind = pair(ca, c1), "read-chunking"
			} else {
				c3 := c2
				c3.Faults.EnvSeed = ca.Faults.EnvSeed
				if !differs(pair(ca, c3)) {
					rp, kind = pair(ca, c2), "environment"
				}
			}
		}
	}
	if kind == "map-order" && (ca.RebuildVariant == 3 || cb.RebuildVariant == 3) && differs(rp) {
		// one side built while another build ran in the same process: without
		// that second build, is the difference gone?
		ca2, cb2 := ca, cb
		ca2.RebuildVariant, cb2.RebuildVariant = 0, 0
		if !differs(&c19Replay{Input: in.Name, Grammar: string(in.Grammar), Sessions: [][]tooldriver.Case{{ca2}, {cb2}}, Target: [][2]int{{0, 0}, {1, 0}}}) {
			kind = "concurrent-builds"
		}
	}
	if kind == "read-chunking" || kind == "concurrent-builds" || kind == "environment" || kind == "grammar-file-name" {
		// nothing more to establish
	} else if !differs(rp) {
		// 2. history matters: keep the session prefixes
		rp = &c19Replay{Input: in.Name, Grammar: string(in.Grammar),
			Sessions: [][]tooldriver.Case{append([]tooldriver.Case(nil), sessions[a.sess][:a.idx+1]...), append([]tooldriver.Case(nil), sessions[b.sess][:b.idx+1]...)},
			Target:   [][2]int{{0, a.idx}, {1, b.idx}}}
		kind = "process-history"
		if !differs(rp) {
			kind = "unreproduced"
		} else {
			// drop predecessors while the divergence persists
			for s := 0; s < 2; s++ {
				for i := 0; i < len(rp.Sessions[s])-1; {
					cand := *rp
					cand.Sessions = [][]tooldriver.Case{rp.Sessions[0], rp.Sessions[1]}
					cand.Sessions[s] = append(append([]tooldriver.Case(nil), rp.Sessions[s][:i]...), rp.Sessions[s][i+1:]...)
					cand.Target = [][2]int{{0, len(cand.Sessions[0]) - 1}, {1, len(cand.Sessions[1]) - 1}}
					if differs(&cand) {
						*rp = cand
					} else {
						i++
					}
				}
			}
		}
	}
	if kind == "unreproduced" {
		// neither the two cases alone nor their sessions reproduce the difference in
		// fresh processes: nothing replayable, nothing to report
		return nil
	}
	if kind == "map-order" || kind == "read-chunking" || kind == "concurrent-builds" || kind == "environment" || kind == "grammar-file-name" {
		// 3. reduce the grammar line by line (both target cases carry the same text)
		setGrammar := func(rp *c19Replay, g []byte) {
			for s := range rp.Sessions {
				for c := range rp.Sessions[s] {
					cs := &rp.Sessions[s][c]
					if cs.Files != nil {
						cs.Files = map[string][]byte{"grammar.peg": g}
					} else {
						cs.Stdin = g
					}
				}
			}
			rp.Grammar = string(g)
		}
		lines := strings.Split(string(in.Grammar), "\n")
		budget := 60
		deadline := time.Now().Add(45 * time.Second)
		for i := 0; i < len(lines) && budget > 0 && time.Now().Before(deadline); {
			cand := append(append([]string(nil), lines[:i]...), lines[i+1:]...)
			budget--
			trial := &c19Replay{Input: rp.Input, Sessions: [][]tooldriver.Case{{rp.Sessions[0][0]}, {rp.Sessions[1][0]}}, Target: rp.Target}
			setGrammar(trial, []byte(strings.Join(cand, "\n")))
			if differs(trial) {
				lines = cand
				*rp = *trial
			} else {
				i++
			}
		}
	}
	msg := fmt.Sprintf("input %q flags %v: runs disagree (%s); A: %s ; B: %s", in.Name, in.Flags, kind, a.sig, b.sig)
	attrs := map[string]string{"kind": kind, "class": class, "flags": strings.Join(in.Flags, " "), "input": in.Name, "grammar": rp.Grammar, "dedupe": in.Name + strings.Join(in.Flags, " ")}
	return &violation{Property: "C19", Class: class, Message: msg, Attrs: attrs, Seed: seed, Case: fmt.Sprintf("input-%d", idx), Replay: rp, Kind: "c19"}
}

// replayC19 re-runs a replay file and reports whether the divergence is there.
func replayC19(tw *toolWorld, rp *c19Replay) (bool, string) {
	set := map[string]bool{}
	var sigs []string
	for si, s := range rp.Sessions {
		outs := runSession(tw, s, caseTimeout)
		for _, t := range rp.Target {
			if t[0] == si {
				for _, sg := range outcomeSignatures(outs[t[1]]) {
					if !set[sg] {
						set[sg] = true
						sigs = append(sigs, sg)
					}
				}
			}
		}
	}
	return len(set) > 1, strings.Join(sigs, "\n  ")
}

// renameGrammar returns the case with its grammar file under another name.
func renameGrammar(c tooldriver.Case, name string) tooldriver.Case {
	if c.GrammarFile == "" || c.GrammarFile == name {
		return c
	}
	files := map[string][]byte{}
	for k, v := range c.Files {
		if k == c.GrammarFile {
			files[name] = v
		} else {
			files[k] = v
		}
	}
	args := append([]string(nil), c.Args...)
	for i := len(args) - 1; i >= 0; i-- {
		if args[i] == c.GrammarFile {
			args[i] = name
			break
		}
	}
	c.Files, c.Args, c.GrammarFile = files, args, name
	return c
}

package main

import (
	"fmt"
	"os"
	"strings"
	"time"
	"verifsim/gen"

	"verifsim/kernel"
	"verifsim/parsersim"
	"verifsim/simrt"
	"verifsim/simsync"
)

// C18: concurrent parses with one generated parser are isolated. Parser world,
// N client goroutines under the seeded scheduler, one shared simulated pool,
// the Go race detector with only true happens-before edges.

// c18Focus carries, from the plain pass to the race pass, the calls during
// which the package-level grammar value changed: "batch/parser name" -> calls.
// A change of that value is not a violation in itself (a correctly
// synchronised lazy cache would do the same); the race pass therefore runs
// those very calls from several clients at once, where an unsynchronised
// write to the shared grammar is a data race the detector reports.
var c18Focus = map[string][]parsersim.Call{}

func c18Prop(race bool) *pProp {
	pp := c18PropBase(race)
	if !race {
		pp.collect = func(batch int, gp *genParser, req *parsersim.Request, resp *parsersim.Response) {
			key := fmt.Sprintf("%d/%s", batch, gp.Name)
			if resp.Stats["grammar_value_changed_during_run"] == 0 || len(c18Focus[key]) >= 6 {
				return
			}
			for _, cl := range req.Clients {
				for _, c := range cl {
					if len(c18Focus[key]) < 6 {
						c18Focus[key] = append(c18Focus[key], c)
					}
				}
			}
		}
		return pp
	}
	inner := pp.mkReqs
	pp.mkReqs = func(r *rng, gp *genParser, p pParams) []*parsersim.Request {
		reqs := inner(r, gp, p)
		calls := c18Focus[fmt.Sprintf("%d/%s", p.batch, gp.Name)]
		for k := 0; k < len(calls) && k < 6; k++ {
			// three clients make the same call: whatever it writes into the shared
			// grammar, they write it concurrently
			var clients [][]parsersim.Call
			for c := 0; c < 3; c++ {
				clients = append(clients, []parsersim.Call{calls[k], calls[(k+1)%len(calls)]})
			}
			reqs = append(reqs, &parsersim.Request{ID: fmt.Sprintf("c18-%s-focus%d", gp.Name, k), Kind: "c18", Parser: gp.Name,
				Clients: clients, Sched: simrt.SchedConfig{Strategy: simrt.StratRandom, SwitchOneIn: []int{2, 5}[k%2]}, Seed: r.u64(), StepCap: 60000})
		}
		return reqs
	}
	return pp
}

func c18PropBase(race bool) *pProp {
	return &pProp{
		id:     "C18",
		level:  "exploration",
		race:   race,
		rule:   "one evaluation = one simulated Parse/ParseReader call; a case is one schedule: 2-4 client goroutines, each issuing 1-3 calls with their own inputs, options (Memoize, Debug, Recover, budgets, entrypoints), plans (state operations, returned errors, panics) on the same generated package over one shared simulated sync.Pool; exactly one client runs at a time and every switch (at each function entry and loop head of the generated runtime, each pool operation, each code-block call, call entry and exit) is decided by the seeded scheduler (uniform random with drawn switch probability, or PCT-style priorities with d change points); every call must return exactly what the same call returns alone (value, error list, complete code-block history incl. the state each block saw, ExprCnt), every third schedule is also compared with the same calls run alone in a fresh process; a change of the package-level grammar value during a run is not a verdict (a synchronised lazy cache would do the same) but makes the race pass run those very calls from three clients at once; and in the -race build the Go race detector must stay silent (scheduler hand-offs are hidden from it with RaceDisable; the only edge between clients is Put(x) -> Get returning x); distinct_nontrivial = distinct interaction traces (sequence of (client, pool-op | code-block | entry | exit) events) among schedules with at least one preemption",
		assume: []string{"clients interact only through the pool and the package-level grammar, so interleavings that differ only between interaction points are equivalent", "the race verdict is exact for the schedules explored; the race detector keeps a bounded access history per word", "grammars with state, memoisation, left recursion (direct, mutual, multi-cycle; not the nullable-prefix shape of observation O3, whose parsers never return), throw/recover; both template variants"},
		bias:   specBias{nullableLoops: 5, leftRec: 20, states: 70, preds: 60, actions: 85, throws: 25, optimized: 35, display: 10, unicode: 50, stateBias: true, bigClasses: 70},
		tier: func(tier string) pParams {
			if tier == "thorough" {
				if race {
					return pParams{batches: 6, grammars: 300, extra: 60}
				}
				return pParams{batches: 6, grammars: 300, extra: 300}
			}
			if race {
				// the same grammars as the plain pass (same seed stream), fewer schedules
				return pParams{grammars: 48, extra: 15}
			}
			return pParams{grammars: 48, extra: 75}
		},
		extraSpecs: func(r *rng) []*genParser {
			// a grammar that backtracks exponentially and still terminates: one call
			// on a^15 c^14 needs some hundred thousand expressions for 29 bytes. What
			// such a call leaves behind in the package (an adaptive default, a
			// cache) must not show in the calls of other clients.
			lit := func(s string) *gen.Expr { return &gen.Expr{Kind: gen.Lit, Text: s} }
			ref := func(s string) *gen.Expr { return &gen.Expr{Kind: gen.Ref, Name: s} }
			seq := func(xs ...*gen.Expr) *gen.Expr { return &gen.Expr{Kind: gen.Seq, Subs: xs} }
			g := &gen.Grammar{Rules: []*gen.Rule{
				{Name: "Start", Expr: &gen.Expr{Kind: gen.Action, Subs: []*gen.Expr{seq(ref("Pp"), &gen.Expr{Kind: gen.Not, Subs: []*gen.Expr{{Kind: gen.Any}}})}}},
				{Name: "Pp", Expr: &gen.Expr{Kind: gen.Choice, Subs: []*gen.Expr{seq(lit("a"), ref("Pp"), lit("b")), seq(lit("a"), ref("Pp"), lit("c")), lit("a")}}},
			}}
			g.Finish()
			// statements resynchronised by one recovery expression that contains a
			// choice, the label thrown from two different rules: whatever a parser
			// remembers per expression node (a statistics key, a cached name) is
			// computed while one rule or the other is on top of the rule stack
			cls := func() *gen.Expr {
				return &gen.Expr{Kind: gen.Plus, Subs: []*gen.Expr{{Kind: gen.Class, Ranges: []rune{'a', 'b'}}}}
			}
			choice := func(xs ...*gen.Expr) *gen.Expr { return &gen.Expr{Kind: gen.Choice, Subs: xs} }
			opt := func(x *gen.Expr) *gen.Expr { return &gen.Expr{Kind: gen.Opt, Subs: []*gen.Expr{x}} }
			stmt := func(kw string) *gen.Expr {
				return &gen.Expr{Kind: gen.Action, Subs: []*gen.Expr{seq(lit(kw), cls(), choice(lit(";"), &gen.Expr{Kind: gen.Throw, Name: "semi"}), opt(lit("\n")))}}
			}
			g2 := &gen.Grammar{Rules: []*gen.Rule{
				{Name: "Start", Expr: &gen.Expr{Kind: gen.Action, Subs: []*gen.Expr{seq(&gen.Expr{Kind: gen.Star, Subs: []*gen.Expr{ref("Stmt")}}, &gen.Expr{Kind: gen.Not, Subs: []*gen.Expr{{Kind: gen.Any}}})}}},
				{Name: "Stmt", Expr: &gen.Expr{Kind: gen.Recover, Labels: []string{"semi"}, Subs: []*gen.Expr{
					choice(ref("Let"), ref("Call")),
					choice(&gen.Expr{Kind: gen.Action, Subs: []*gen.Expr{lit("\n")}}, &gen.Expr{Kind: gen.Not, Subs: []*gen.Expr{{Kind: gen.Any}}}),
				}}},
				{Name: "Let", Expr: stmt("l")},
				{Name: "Call", Expr: stmt("c")},
			}}
			g2.Finish()
			// a lookahead at a rule and then the rule itself, no action anywhere: the
			// values are the parser's own slices, one of them produced twice (or,
			// memoised, once and handed out twice); callers keep what they get
			g3 := &gen.Grammar{Rules: []*gen.Rule{
				{Name: "Start", Expr: seq(&gen.Expr{Kind: gen.And, Subs: []*gen.Expr{ref("Line")}}, &gen.Expr{Kind: gen.Label, Name: "l", Subs: []*gen.Expr{ref("Line")}}, opt(lit("\n")), &gen.Expr{Kind: gen.Not, Subs: []*gen.Expr{{Kind: gen.Any}}})},
				{Name: "Line", Expr: seq(cls(), lit(","), cls(), opt(seq(lit(","), cls())))},
			}}
			g3.Finish()
			return []*genParser{newGenParser("pbomb", g, nil), newGenParser("precov", g2, nil), newGenParser("plook", g3, nil)}
		},
		mkReqs: func(r *rng, gp *genParser, p pParams) []*parsersim.Request {
			var reqs []*parsersim.Request
			if gp.Name == "pbomb" {
				for k := 0; k < 3; k++ {
					n := 14 + r.intn(2)
					heavyIn := []byte(strings.Repeat("a", n) + strings.Repeat("c", n-1))
					small := [][]byte{[]byte("aac"), []byte("aaabc"), []byte("a"), []byte("aaaacbc"), []byte("ab")}
					var clients [][]parsersim.Call
					nc := 2 + r.intn(3)
					for c := 0; c < nc; c++ {
						var calls []parsersim.Call
						for j := 1 + r.intn(3); j > 0; j-- {
							o := parsersim.Opts{Stats: true}
							plan := drawPlan(r, false)
							plan.MaxEvents = 300
							in := small[r.intn(len(small))]
							if c == 0 && len(calls) == 0 {
								in = heavyIn
							}
							calls = append(calls, parsersim.Call{Input: in, Opts: o, Plan: plan})
						}
						clients = append(clients, calls)
					}
					sc := simrt.SchedConfig{Strategy: simrt.StratRandom, SwitchOneIn: []int{20, 100, 400, 3000}[r.intn(4)]}
					reqs = append(reqs, &parsersim.Request{ID: fmt.Sprintf("c18-%s-s%d", gp.Name, k), Kind: "c18", Parser: gp.Name,
						Clients: clients, Sched: sc, Pool: simsync.PoolConfig{}, Seed: r.u64(), StepCap: 400000000})
				}
				return reqs
			}
			if gp.Name == "plook" {
				ins := [][]byte{[]byte("ab,b"), []byte("a,bb,a\n"), []byte("b,a"), []byte("aa,ab,ba"), []byte("b,b\n"), []byte("a,"), []byte("ab,ba,a")}
				for k := 0; k < 6; k++ {
					var clients [][]parsersim.Call
					nc := 2 + r.intn(3)
					for c := 0; c < nc; c++ {
						var calls []parsersim.Call
						for j := 1 + r.intn(3); j > 0; j-- {
							plan := drawPlan(r, false)
							calls = append(calls, parsersim.Call{Input: ins[r.intn(len(ins))], Opts: parsersim.Opts{Stats: true, Memoize: !r.chance(1, 4)}, Plan: plan})
						}
						clients = append(clients, calls)
					}
					sc := simrt.SchedConfig{Strategy: simrt.StratRandom, SwitchOneIn: []int{2, 5, 20, 100}[r.intn(4)]}
					reqs = append(reqs, &parsersim.Request{ID: fmt.Sprintf("c18-%s-s%d", gp.Name, k), Kind: "c18", Parser: gp.Name,
						Clients: clients, Sched: sc, Pool: simsync.PoolConfig{}, Seed: r.u64(), StepCap: 60000})
				}
				return reqs
			}
			if gp.Name == "precov" {
				ins := [][]byte{[]byte("lab\ncab\n"), []byte("cab\nlab\n"), []byte("la;cb;"), []byte("cb\n"), []byte("lb"), []byte("ca;lab\n"), []byte("lab\nx")}
				for k := 0; k < 6; k++ {
					var clients [][]parsersim.Call
					nc := 2 + r.intn(3)
					for c := 0; c < nc; c++ {
						var calls []parsersim.Call
						for j := 1 + r.intn(2); j > 0; j-- {
							plan := drawPlan(r, false)
							plan.MaxEvents = 300
							in := ins[r.intn(len(ins))]
							if len(calls) == 0 && c < 2 {
								in = ins[c] // one client meets the recovery expression from Let first, another from Call
							}
							calls = append(calls, parsersim.Call{Input: in, Opts: parsersim.Opts{Stats: true, Memoize: r.chance(1, 4)}, Plan: plan})
						}
						clients = append(clients, calls)
					}
					sc := simrt.SchedConfig{Strategy: simrt.StratRandom, SwitchOneIn: []int{2, 5, 20, 100}[r.intn(4)]}
					reqs = append(reqs, &parsersim.Request{ID: fmt.Sprintf("c18-%s-s%d", gp.Name, k), Kind: "c18", Parser: gp.Name,
						Clients: clients, Sched: sc, Pool: simsync.PoolConfig{}, Seed: r.u64(), StepCap: 60000})
				}
				return reqs
			}
			inputs := drawInputs(r, gp.G, 8, 24)
			if len(inputs) == 0 {
				return nil
			}
			for k := 0; k < p.extra; k++ {
				nc := 2 + r.intn(3)
				// a program that keeps its options in package-level variables: all
				// clients of such a schedule apply the same Option values
				sharedOpts := r.chance(1, 3)
				sharedEntryEmpty := sharedOpts && r.chance(1, 2)
				// one file on disk that all clients of the schedule parse with
				// ParseFile, each with its own options and plan
				sharedFile := r.chance(1, 7)
				sharedInput := inputs[r.intn(len(inputs))]
				// one call of the schedule is heavy: a grammar whose repetitions can go
				// on without consuming input, stopped only by a budget of some hundred
				// thousand expressions (what such a call leaves behind in the package
				// must not show in the others)
				heavy := gp.G.NullableLoops() && r.chance(1, 3)
				// the actions of this schedule change matched bytes where they stand
				// (their own input, as far as they can know)
				scribble := r.chance(1, 5)
				var clients [][]parsersim.Call
				for c := 0; c < nc; c++ {
					var calls []parsersim.Call
					for j := 1 + r.intn(3); j > 0; j-- {
						o := drawOpts(r, gp, 35, 15)
						if r.chance(1, 4) {
							o.MaxExpr = uint64(1 + r.intn(60))
						}
						o.SharedOptions = sharedOpts
						if sharedEntryEmpty && o.Entrypoint == "" {
							o.EntryEmpty = true
						}
						if gp.Has["InitState"] && r.chance(1, 3) {
							o.InitState = [][2]string{{"k0", "init"}, {"c1", "C:i1"}}
						}
						plan := drawPlan(r, gp.HasState)
						plan.MaxEvents = 300
						if r.chance(1, 3) {
							plan.ErrPct = 25
						}
						if scribble {
							plan.ScribblePct = 30
						}
						if r.chance(1, 8) {
							plan.Faults = []kernel.Fault{{Site: 1 + r.intn(len(gp.G.Sites)+1), N: 1 + r.intn(2), Kind: []string{"panic-err", "panic-str"}[r.intn(2)]}}
						}
						in := inputs[r.intn(len(inputs))]
						if sharedFile {
							o.UseFile, o.FilePrepared, o.UseReader = true, true, false
							in = sharedInput
						}
						if heavy && c == 0 && len(calls) == 0 {
							o.MaxExpr = uint64(70000 + r.intn(60000))
							o.Memoize = false
							plan.MaxEvents = 200000
						}
						calls = append(calls, parsersim.Call{Input: in, Opts: o, Plan: plan})
					}
					clients = append(clients, calls)
				}
				stepCap := int64(60000)
				if heavy {
					stepCap = 40000000
				}
				var sc simrt.SchedConfig
				switch r.intn(4) {
				case 0:
					sc = simrt.SchedConfig{Strategy: simrt.StratPCT, SwitchOneIn: 1 + r.intn(3)}
				default:
					sc = simrt.SchedConfig{Strategy: simrt.StratRandom, SwitchOneIn: []int{2, 5, 20, 100, 400}[r.intn(5)]}
				}
				pool := simsync.PoolConfig{NewPct: r.intn(20), RandomPct: r.intn(50), FIFOPct: r.intn(30), DropPct: r.intn(10)}
				reqs = append(reqs, &parsersim.Request{ID: fmt.Sprintf("c18-%s-s%d", gp.Name, k), Kind: "c18", Parser: gp.Name,
					Clients: clients, Sched: sc, Pool: pool, Seed: r.u64(), StepCap: stepCap})
			}
			if r.chance(1, 2) {
				// a crowd: 66-125 clients with one small call each, switched so often
				// that nearly all of them are inside Parse at the same time (a server
				// under load; "any number of goroutines")
				nc := 66 + r.intn(60)
				var clients [][]parsersim.Call
				for c := 0; c < nc; c++ {
					o := drawOpts(r, gp, 25, 8)
					o.Debug = false
					plan := drawPlan(r, gp.HasState)
					plan.MaxEvents = 200
					clients = append(clients, []parsersim.Call{{Input: inputs[r.intn(len(inputs))], Opts: o, Plan: plan}})
				}
				sc := simrt.SchedConfig{Strategy: simrt.StratRandom, SwitchOneIn: []int{2, 3, 6}[r.intn(3)]}
				pool := simsync.PoolConfig{NewPct: r.intn(20), RandomPct: r.intn(50), FIFOPct: r.intn(30), DropPct: r.intn(10)}
				reqs = append(reqs, &parsersim.Request{ID: fmt.Sprintf("c18-%s-crowd", gp.Name), Kind: "c18", Parser: gp.Name,
					Clients: clients, Sched: sc, Pool: pool, Seed: r.u64(), StepCap: 60000})
			}
			return reqs
		},
		post:    c18FreshSolo,
		nontriv: func(o *parsersim.Response) bool { return o.Stats["schedules_with_preemption"] > 0 },
		dkey: func(req *parsersim.Request, resp *parsersim.Response) string {
			return req.Parser + "|" + strings.Join(resp.Hashes, ",")
		},
		faults: func(st map[string]int) map[string]int {
			return map[string]int{"context_switches": st["context_switches"], "pool_random_pick": st["pool_random_pick"], "pool_fifo_pick": st["pool_fifo_pick"], "pool_dropped": st["pool_dropped"], "pool_recycled": st["pool_recycled"]}
		},
	}
}

// runC18 runs the schedules without the race detector (fast, other oracles)
// and then a second batch under the race build; the evidence of the two is
// merged.
// c18SoloEvery: every n-th schedule is compared with its calls made alone,
// each in a fresh process of its own (a process per call: the thorough tier
// has half a million schedules and samples them more thinly).
var c18SoloEvery = 3

func runC18(tier string) int {
	if tier == "thorough" {
		c18SoloEvery = 24
	}
	code1 := runParserProp(c18Prop(false), tier)
	ev1 := readEvidence("C18")
	code2 := runParserProp(c18Prop(true), tier)
	ev2 := readEvidence("C18")
	mergeEvidence("C18", ev1, ev2)
	if code1 != 0 {
		return code1
	}
	return code2
}

// c18FreshSolo re-runs, for a sample of the schedules, every call alone in a
// fresh process and compares with what the call returned in the concurrent run.
// "Alone" then also means alone in the process: state that the package keeps
// between calls cannot hide on both sides of the comparison.
func c18FreshSolo(pp *pProp, pw *parserWorld, reqs []*parsersim.Request, owner []*genParser, outs []pOutcome, env []string, rep *reporter, seed uint64, stats map[string]int) int {
	// every call of a sampled schedule is made in a process of its own: what a
	// package remembers from its first call (a cached name, a statistics key)
	// is remembered from that call alone
	type at struct{ i, ci, cj int }
	var idx []at
	var solo []*parsersim.Request
	for i, o := range outs {
		every := c18SoloEvery
		if os.Getenv("VERIF_C18_NOSOLO") != "" {
			every = 1 << 30
		}
		if pp.race {
			every *= 3 // (a process of the race build takes several times longer to start)
		}
		if i%every != 0 || o.Status != "ok" || len(o.Resp.Digests) == 0 {
			continue
		}
		for ci := range reqs[i].Clients {
			for cj := range reqs[i].Clients[ci] {
				rq := *reqs[i]
				rq.Kind = "c18solo"
				rq.ID = fmt.Sprintf("%s-solo-%d-%d", reqs[i].ID, ci, cj)
				rq.Clients = [][]parsersim.Call{{reqs[i].Clients[ci][cj]}}
				idx = append(idx, at{i, ci, cj})
				solo = append(solo, &rq)
			}
		}
	}
	souts := runParserCases(pw, solo, 120*time.Second, env, 1)
	runs := 0
	reported := 0
	diffs := map[int]string{}
	seen := map[int]bool{}
	var order []int
	for k, so := range souts {
		a := idx[k]
		if so.Status != "ok" || len(so.Resp.Digests) == 0 || len(so.Resp.Digests[0]) == 0 {
			continue
		}
		runs += so.Resp.Runs
		if !seen[a.i] {
			seen[a.i] = true
			order = append(order, a.i)
			stats["schedules_compared_with_fresh_process_solo"]++
		}
		stats["calls_compared_with_fresh_process_solo"]++
		x, y := outs[a.i].Resp.Digests[a.ci][a.cj], so.Resp.Digests[0][0]
		if x != y && x != "capped" && y != "capped" && x != "lost" {
			diffs[a.i] = fmt.Sprintf("client %d call %d", a.ci, a.cj)
		}
	}
	for _, i := range order {
		diff := diffs[i]
		if diff == "" {
			continue
		}
		stats["fresh_process_solo_differs"]++
		if reported >= 3 {
			continue
		}
		reported++
		gp := owner[i]
		v := &violation{Property: pp.id, Class: "differs-from-fresh-solo", Seed: seed, Case: reqs[i].ID, Kind: "parser",
			Message: fmt.Sprintf("%s returned something else in the concurrent run than the same call run alone in a fresh process [grammar %s flags %v]", diff, strings.TrimSpace(specSummary(gp)["grammar"].(string)), gp.Flags),
			Attrs:   map[string]string{"class": "differs-from-fresh-solo", "dedupe": "differs-from-fresh-solo|" + gp.Name},
			Replay:  &parserReplay{Grammar: gp.G, Text: gp.Text, Flags: gp.Flags, Request: reqs[i], Race: pp.race, Expected: "differs-from-fresh-solo", FreshSolo: true}}
		rep.add(v)
	}
	return runs
}

package main

import (
	"fmt"
	"os"
	"path/filepath"
	"sort"
	"strings"

	"verifsim/gen"
	"verifsim/simos"
	"verifsim/tooldriver"
)

// toolInput is one (grammar text, flags) pair before faults and map orders
// are attached.
type toolInput struct {
	Name    string   // provenance, for reports
	Grammar []byte   // the grammar text
	Flags   []string // flags other than -o / file argument
	Class   string   // repo, gen, genlr, mut, bytes
	Rules   []string // rule names if known (for -alternate-entrypoints)
	Rebuild bool     // library-style use: parse once, build twice from the same grammar value
	// Attrs describes the shape of generated inputs whose shape matters to the
	// classification of a violation (kept out of minimisation of the grammar text).
	Attrs map[string]string
}

// repoGrammars lists every .peg file of the scratch copy, sorted.
func repoGrammars(src string) []toolInput {
	var out []toolInput
	filepath.Walk(src, func(p string, info os.FileInfo, err error) error {
		if err != nil || info.IsDir() || !strings.HasSuffix(p, ".peg") {
			return nil
		}
		b, err := os.ReadFile(p)
		if err != nil {
			return nil
		}
		rel, _ := filepath.Rel(src, p)
		out = append(out, toolInput{Name: rel, Grammar: b, Class: "repo"})
		return nil
	})
	sort.Slice(out, func(i, j int) bool { return out[i].Name < out[j].Name })
	return out
}

var boolFlags = []string{"-cache", "-nolint", "-no-recover", "-optimize-basic-latin", "-optimize-grammar", "-optimize-parser", "-support-left-recursion"}

// drawFlags draws a syntactically valid flag set.
func drawFlags(r *rng, rules []string, lr bool) []string {
	var f []string
	for _, b := range boolFlags {
		p := 4
		if b == "-optimize-grammar" || b == "-support-left-recursion" || b == "-optimize-basic-latin" {
			p = 2
		}
		if r.intn(p) == 0 {
			f = append(f, b)
		}
	}
	if lr && !contains(f, "-support-left-recursion") && r.chance(5, 6) {
		f = append(f, "-support-left-recursion")
	}
	if r.chance(1, 8) {
		f = append(f, "-receiver-name", r.pick([]string{"p", "cur", "self", "p", "cur", "", "x y", "func", "c.d", "é", "_", "l1"}))
	}
	if r.chance(1, 10) {
		f = append(f, "-x")
	}
	if r.chance(1, 40) {
		f = append(f, "-debug")
	}
	if len(rules) > 0 && r.chance(1, 4) {
		n := 1 + r.intn(2)
		var names []string
		for i := 0; i < n; i++ {
			names = append(names, rules[r.intn(len(rules))])
		}
		if r.chance(1, 8) {
			// a name that is no rule: a typo, a name in another script, a very long one
			names = append(names, r.pick([]string{"NoSuchRule", "Elément", "Grösse", "Правило", "規則", "Sta rt", strings.Repeat("Rule", 80), "A\x00B", "start"}))
		}
		if r.chance(1, 8) {
			names = append(names, "", names[0], " "+names[0])
		}
		if r.chance(1, 6) {
			// what a shell variable that is empty leaves behind
			names = r.pickNames([][]string{{names[0], ""}, {"", names[0]}, {""}, {names[0], "", names[0]}, {"", ""}})
		}
		f = append(f, "-alternate-entrypoints", strings.Join(names, ","))
	}
	return f
}

func contains(xs []string, x string) bool {
	for _, y := range xs {
		if y == x {
			return true
		}
	}
	return false
}

// genToolGrammar draws a generated grammar for the tool world.
func genToolGrammar(r *rng, lr bool) (toolInput, *gen.Grammar) {
	cfg := gen.Config{
		MaxRules: 2 + r.intn(5), MaxDepth: 1 + r.intn(4),
		Actions: r.chance(2, 3), Preds: r.chance(1, 2), States: r.chance(1, 3), Lookahead: r.chance(1, 2),
		Labels: r.chance(1, 2), Throws: r.chance(1, 4), Fold: r.chance(1, 2), Unicode: r.chance(1, 2),
		AnyMatcher: r.chance(1, 2), Display: r.chance(1, 3), NullableLoops: r.chance(1, 4),
		Unused: r.chance(1, 3), Undefined: r.chance(1, 10), SharedLeaf: r.chance(1, 2), LeftRec: lr, Wide: r.chance(1, 2),
		DigitNames: r.chance(1, 6), LongLits: r.chance(1, 3), BigClasses: r.chance(1, 3),
	}
	g := gen.Generate(r2{r}, cfg)
	if g == nil {
		cfg.MaxDepth = 1
		g = gen.Generate(r2{r}, cfg)
	}
	if lr && len(g.Rules) > 1 && r.chance(1, 4) {
		// the recursive rule as a whole under a recovery expression: diagnostics and
		// analyses that walk to the leftmost reference have to walk through it
		rl := g.Rules[1]
		rl.Expr = &gen.Expr{Kind: gen.Recover, Subs: []*gen.Expr{rl.Expr, {Kind: gen.Lit, Text: "r"}}, Labels: []string{"E7"}}
		g.Finish()
	}
	po := gen.PrintOptions{Semi: r.chance(1, 6), JoinLines: r.chance(1, 6) || (lr && r.chance(1, 3))}
	if r.chance(1, 3) {
		// code blocks in the spellings people write: stubs, blank lines, braces
		// inside strings and comments
		seedc := r.u64()
		po.Code = func(s gen.SiteInfo) string {
			ret := "return nil, nil"
			switch s.Kind {
			case gen.State:
				ret = "return nil"
			case gen.AndCode, gen.NotCode:
				ret = "return true, nil"
			}
			switch (seedc + uint64(s.Site)*2654435761) % 9 {
			case 0:
				return "{\n}"
			case 1:
				return "{}"
			case 2:
				return "{\n\n}"
			case 3:
				return "{\n\t" + ret + "\n}"
			case 4:
				return "{ /* } */ " + ret + " }"
			case 5:
				return "{ s := \"}{\"; _ = s; " + ret + " }"
			case 6:
				return "{\n\t// }\n\t" + ret + "\n}"
			}
			return "{ " + ret + " }"
		}
	}
	if r.chance(1, 4) {
		po.Arrow = []string{"<-", "=", "←", "⟵"}
	}
	if r.chance(2, 3) {
		po.Header = "{\npackage gen\n}"
	}
	txt := g.Print(po)
	var names []string
	for _, rl := range g.Rules {
		names = append(names, rl.Name)
	}
	cl := "gen"
	if lr {
		cl = "genlr"
	}
	return toolInput{Name: cl, Grammar: []byte(txt), Class: cl, Rules: names}, g
}

type r2 struct{ r *rng }

func (x r2) Intn(n int) int { return x.r.intn(n) }

// mutateGrammar makes a near-valid grammar text: token-level damage that the
// front-end may or may not accept.
func mutateGrammar(r *rng, src []byte) []byte {
	s := string(src)
	for n := 1 + r.intn(3); n > 0; n-- {
		if len(s) == 0 {
			break
		}
		switch r.intn(11) {
		case 0: // delete a line
			lines := strings.Split(s, "\n")
			i := r.intn(len(lines))
			lines = append(lines[:i], lines[i+1:]...)
			s = strings.Join(lines, "\n")
		case 1: // duplicate a line (duplicate rule)
			lines := strings.Split(s, "\n")
			i := r.intn(len(lines))
			lines = append(lines[:i+1], lines[i:]...)
			s = strings.Join(lines, "\n")
		case 2: // rename one identifier occurrence (undefined rule)
			i := r.intn(len(s))
			j := i
			for j < len(s) && (s[j] >= 'A' && s[j] <= 'Z' || s[j] >= 'a' && s[j] <= 'z') {
				j++
			}
			if j > i {
				s = s[:i] + "Zz" + s[j:]
			}
		case 3: // delete a byte
			i := r.intn(len(s))
			s = s[:i] + s[i+1:]
		case 4: // insert a structural byte
			i := r.intn(len(s) + 1)
			s = s[:i] + r.pick([]string{"{", "}", "(", ")", "[", "]", "\"", "'", "/", "*", "+", "?", "&", "!", "%{x}", "//{x} 'r'", "#{", ":", "<-", "\\", "\x00", "\xff", "i", "^", "[\\p{L]", "[\\pX]", "[\\p{Nope}]", "[a-", "[z-a]", "\\u12", "\\777", "\"\\x\"", "[\\", "`", "/*", "//"}) + s[i:]
		case 5: // swap two bytes
			if len(s) > 1 {
				i := r.intn(len(s) - 1)
				b := []byte(s)
				b[i], b[i+1] = b[i+1], b[i]
				s = string(b)
			}
		case 6: // truncate
			s = s[:r.intn(len(s)+1)]
		case 7: // append a throw/recover rule and reference shapes the optimizer sees
			s += r.pick([]string{"\nXx <- 'x' %{e} //{e} 'y'\n", "\nXx <- Yy 'x'\n", "\nXx <- Xx 'x' / 'y'\n", "\nXx <- &Xx 'x'\n", "\nXx <- ('a' / 'b' / [c-d] / 'e'i)* !.\n", "\nXx <- l:'a' l:'b' { return nil, nil }\n", "\nXx <- l:&'a' m:!'b' n:&{ return true, nil } 'c' { return nil, nil }\n", "\nXx <- 'a' / \n", "\nXx <- !Xx 'a' / &Xx 'b'\n", "\nparser <- 'p' current\ncurrent <- 'c' grammar?\ngrammar <- 'g'\n", "\nXx <- \"" + strings.Repeat("long literal ", 400) + "\"\n", "\nXx <- ()\n", "\nXx <- ( )* \n", "\nXx <- 'a'** 'b'?? 'c'+*\n", "\nXx \"\" <- 'a'\n", "\nXx <- [^]* [ ]i . \n",
				// a literal that never ends, right after a rule reference, then a blank line or the end
				"\nXx <- Yy \"abc\n\nYy <- 'y'\n", "\nXx <- Yy 'abc\n\n", "\nXx <- Yy \"abc", "\nXx <- Yy `abc\n\nYy <- 'y'\n", "\nXx <- Yy \"a\\\"\n\n",
				// left recursion whose recursive reference sits under a recovery expression or a label
				"\nXx <- Xx 'x' //{e} 'y' / 'z'\n", "\nXx <- ( Xx 'x' / 'y' ) //{e} 'r'\n", "\nXx <- v:Xx 'x' / 'y'\n", "\nXx <- ( ( Xx ) )? 'x'\n", "\nXx <- &'a' Xx 'x' / 'y'\n"})
		case 8: // replace a literal quote style
			s = strings.Replace(s, "\"", "`", 1)
		case 9, 10: // replace a terminal by a lexically tricky one
			toks := []string{`[\p{L]`, `[\p{L} ]`, `[\pL\pN]`, `[\p{Latin}a-z]i`, `[\p{Nope}]`, `[\pX]`, `[^]`, `[]`, `[\]]`, `[\-a]`, `[a\-]`, `[z-a]`, `[a-]`, `[\x41-\x5a]`, `[\u00e9]`, `[\U0001F600]`, `[\101]`, `'\''`, `'\"'`, "\"\\u00e9\"", "\"\\xff\"", "\"\\uD800\"", "\"\\q\"", "`raw\\n`", "`raw`i", `""`, `''i`, `"a"i`, `.`, `'\777'`, `'\08'`, `[\08]`, `[\p{`, `[\p`, `"\u12"`, `[cf\u212a]i`, `[\u0130]i`, `[\u017f]i`, `"\u212a"i`, `[\u212a-\u212b]i`, `[\ufffd]`, `[\U0010ffff]`, `[\x00]`, `[\x7f-\x80]`,
				// names of Unicode categories and scripts in all the spellings people try
				`[\p{Letter}]`, `[\p{Decimal_Number}]`, `[\p{punct}]`, `[\p{L&}]`, `[\p{LC}]`, `[\p{Cn}]`, `[\p{Zs}\p{Han}]`, `[\p{latin}]`, `[\p{Any}]`, `[\p{ASCII}]`, `[\p{Other}]`, `[\p{Mark}]`, `[\p{Number}]`, `[\p{Symbol}]i`, `[\P{L}]`, `[\p{^L}]`, `[\p{Lowercase_Letter}]`, `[\p{Uppercase_Letter}a]`, `[\p{digit}]`, `[\p{Cyrillic}\p{Greek}]`, `[\p{Sc}\p{Letter}]`, `[\p{Punctuation}-]`,
				// a hyphen next to a class escape: a range that never closes
				`[a-\pL]`, `[a-\p{Lu}]`, `[\pL-z]`, `[a-\pLz]`, `[0-9a-\p{Nd}]i`, `[\x2d-a]`, `[a\x2db]`, `[^a-\pN]`, `[--\pL]`}
			i := strings.IndexAny(s, "'\"[")
			if i < 0 || r.chance(1, 3) {
				i = r.intn(len(s) + 1)
				s = s[:i] + " " + r.pick(toks) + " " + s[i:]
			} else {
				// find the n-th terminal start
				var starts []int
				for j := 0; j < len(s); j++ {
					if s[j] == '\'' || s[j] == '"' || s[j] == '[' {
						starts = append(starts, j)
					}
				}
				i = starts[r.intn(len(starts))]
				j := i + 1
				close := s[i]
				if close == '[' {
					close = ']'
				}
				for j < len(s) && s[j] != close && s[j] != '\n' {
					j++
				}
				if j < len(s) {
					j++
				}
				s = s[:i] + r.pick(toks) + s[j:]
			}
		}
	}
	return []byte(s)
}

// shortHeads are very short inputs, byte order marks and their proper prefixes,
// lone continuation and lead bytes: whatever looks at "the first few bytes".
var shortHeads = []string{"", "\xef", "\xef\xbb", "\xef\xbb\xbf", "\xef\xbb\xbfA <- 'a'\n", "\xfe\xff", "\xff\xfe", "\xfe", "\xff", "\x00", "\xc3", "\xe2\x82", "\xf0\x9f\x98", "{", "}", "A", "A<", "A<-", "A <- ", "\n", "\r\n", "/", "//", "/*", "'", "\"", "[", "\\", "#", "%"}

// crlfVariant is the same grammar as written on a system with other line
// endings: every line feed, or only some of them, preceded by a carriage
// return (a file edited on two systems).
func crlfVariant(r *rng, src toolInput) toolInput {
	all := r.chance(2, 3)
	var b []byte
	for _, c := range src.Grammar {
		if c == '\n' && (all || r.chance(1, 2)) && (len(b) == 0 || b[len(b)-1] != '\r') {
			b = append(b, '\r')
		}
		b = append(b, c)
	}
	in := src
	in.Name = "crlf(" + src.Name + ")"
	in.Class = "crlf"
	in.Grammar = b
	return in
}

func randomBytes(r *rng) []byte {
	if r.chance(1, 3) {
		h := shortHeads[r.intn(len(shortHeads))]
		if r.chance(1, 4) {
			h += string([]byte{byte(r.intn(256))})
		}
		return []byte(h)
	}
	n := r.intn(200)
	b := make([]byte, n)
	al := "AaBb <-=/*+?&!(){}[]'\"\\\n;:.%#^i0\x00\xff\xc3"
	for i := range b {
		if r.chance(1, 10) {
			b[i] = byte(r.intn(256))
		} else {
			b[i] = al[r.intn(len(al))]
		}
	}
	return b
}

// delivery decides how the grammar reaches the tool and where the output goes.
type delivery struct {
	viaFile bool
	outFile bool
	stale   bool // the -o path already holds a longer file from an earlier run
	// other places than grammar.peg and out/parser.go (kind "paths")
	inName string
	outArg string
	dirs   []string
}

var staleOutput = []byte(strings.Repeat("}}}} stale content of an earlier, longer output {{{{\n", 12000))

func makeCase(id string, in toolInput, d delivery, f simos.Faults, mode int, mseed uint64, repeat int) tooldriver.Case {
	c := tooldriver.Case{ID: id, Faults: f, MapMode: mode, MapSeed: mseed, Repeat: repeat}
	if in.Rebuild {
		c.Mode = "rebuild"
	}
	c.Args = append(c.Args, in.Flags...)
	outArg, inName := "out/parser.go", "grammar.peg"
	if d.outArg != "" {
		outArg = d.outArg
	}
	if d.inName != "" {
		inName = d.inName
	}
	c.Dirs = d.dirs
	if d.outFile {
		c.Args = append(c.Args, "-o", outArg)
	}
	if d.viaFile {
		c.Files = map[string][]byte{inName: in.Grammar}
		c.Args = append(c.Args, inName)
		c.GrammarFile = inName
	} else {
		c.Stdin = in.Grammar
	}
	if d.outFile && d.stale {
		if c.Files == nil {
			c.Files = map[string][]byte{}
		}
		c.Files[outArg] = staleOutput
	}
	if n := len(in.Grammar); n > 64<<10 {
		// pigeon's own front-end needs seconds per megabyte (natively about six
		// for a megabyte of comments); a big input gets a limit that grows with it
		c.WallS = (5 + n/(8<<10)) * repeat
	}
	return c
}

func describeCase(c tooldriver.Case) string {
	return fmt.Sprintf("args=%q map=(%d,%d) repeat=%d faults=%s", c.Args, c.MapMode, c.MapSeed, c.Repeat, mustJSON(c.Faults))
}

// genFreeRefGrammar draws a grammar whose rules reference each other freely,
// often in leading position: left-recursive SCCs of arbitrary shape, several
// cycles, nullable prefixes, rule names differing only by case.
func genFreeRefGrammar(r *rng) toolInput {
	if r.chance(1, 2) {
		g := gen.GenerateNullCycle(r2{r}, r.chance(1, 4))
		po := gen.PrintOptions{JoinLines: r.chance(1, 3), Semi: r.chance(1, 6)}
		if r.chance(1, 3) {
			po.Header = "{\npackage gen\n}"
		}
		var names []string
		for _, rl := range g.Rules {
			names = append(names, rl.Name)
		}
		return toolInput{Name: "gennull", Grammar: []byte(g.Print(po)), Class: "gennull", Rules: names}
	}
	cfg := gen.Config{
		MaxRules: 2 + r.intn(5), MaxDepth: 1 + r.intn(2),
		Actions: r.chance(1, 3), Preds: r.chance(1, 4), States: r.chance(1, 5), Lookahead: r.chance(1, 3),
		Labels: r.chance(1, 4), Throws: r.chance(1, 8), Fold: r.chance(1, 3), Unicode: r.chance(1, 4),
		AnyMatcher: r.chance(1, 3), NullableLoops: true, FreeRefs: true, CaseNames: r.chance(1, 3),
		Unused: r.chance(1, 4), SharedLeaf: r.chance(1, 2), Wide: r.chance(1, 3),
	}
	g := gen.Generate(r2{r}, cfg)
	po := gen.PrintOptions{JoinLines: r.chance(1, 4)}
	if r.chance(1, 2) {
		po.Header = "{\npackage gen\n}"
	}
	var names []string
	for _, rl := range g.Rules {
		names = append(names, rl.Name)
	}
	return toolInput{Name: "genfree", Grammar: []byte(g.Print(po)), Class: "genfree", Rules: names}
}

// genDeepGrammar draws a "doubling chain": rules W<n> .. W1 that each mention
// the rule below them several times, over a terminal base rule W0. The text is
// a few hundred bytes; anything the tool does per *path* through the rules
// instead of per rule costs 2^n. What the analyses of the tool visit depends
// on the shape, so the shape is recorded:
//
//	refs_all_visited=false: sequences over a non-nullable base; the
//	    nullability analysis stops at the first item of each sequence
//	refs_all_visited=true: a nullable base under sequences, or a choice between
//	    references; the analysis looks at every reference
func genDeepGrammar(r *rng) toolInput {
	if r.chance(1, 4) {
		// deeply nested parentheses: the grammar front-end is itself a backtracking
		// parser and needs 2^depth steps for them unless -cache is given
		d := 24 + r.intn(24)
		closing := d
		if r.chance(1, 2) {
			// groups that are opened and never closed: the failure is found at the
			// innermost level and every level above gets to try again
			closing = r.intn(3)
		}
		g := "A <- " + strings.Repeat("( ", d) + "'a'" + strings.Repeat(" )", closing) + "\n"
		return toolInput{Name: "gennest", Class: "gendeep", Grammar: []byte(g), Rules: []string{"A", "A"},
			Attrs: map[string]string{"shape": "nested-parentheses", "depth": fmt.Sprint(d)}}
	}
	depth := 36 + r.intn(28)
	type shape struct {
		body, base string
		all        bool
	}
	shapes := []shape{
		{"X X", "[01]", false}, {"X ' ' X", "[01]", false}, {"X X X", "'x'", false}, {"&X X", "[01]", false}, {"(X X)*", "[01]", false},
		{"X ' ' X", "'a'?", false}, {"a:X b:X", "[01]", false}, {"X !X X", ".", false},
		{"X X", "'a'?", true}, {"X X / X", "[01]", true}, {"X / X", "'a'", true}, {"X X X", "[01]*", true},
	}
	sh := shapes[r.intn(len(shapes))]
	var b strings.Builder
	if r.chance(1, 2) {
		b.WriteString("{\npackage gen\n}\n")
	}
	var names []string
	for i := depth; i >= 1; i-- {
		fmt.Fprintf(&b, "W%d <- %s\n", i, strings.ReplaceAll(sh.body, "X", fmt.Sprintf("W%d", i-1)))
		names = append(names, fmt.Sprintf("W%d", i))
	}
	fmt.Fprintf(&b, "W0 <- %s\n", sh.base)
	return toolInput{Name: "gendeep", Class: "gendeep", Grammar: []byte(b.String()), Rules: names,
		Attrs: map[string]string{"shape": "doubling-chain", "refs_all_visited": fmt.Sprint(sh.all), "depth": fmt.Sprint(depth), "body": sh.body, "base": sh.base}}
}

// genLRRecovery draws small left-recursive grammars whose recursive reference
// sits under a recovery expression, a label, a group or a predicate prefix:
// whatever walks to "the leftmost reference" has to walk through those.
func genLRRecovery(r *rng) toolInput { return genLRRecoveryN(r, -1) }

// lrShapeCount is the number of shapes genLRRecoveryN knows.
const lrShapeCount = 23

// genLRRecoveryN takes shape i (every shape once when i counts up), or a drawn one.
func genLRRecoveryN(r *rng, i int) toolInput {
	shapes := []string{
		"E <- E '+' T / T //{e} X\nT <- [0-9]+\nX <- .\n",
		"E <- ( E '+' T //{e} X ) / T\nT <- [0-9]+\nX <- .\n",
		"E <- l:( E //{e} X ) '+' T / T\nT <- [0-9]+\nX <- .\n",
		"A <- B 'x' //{e} X / 'a'\nB <- A 'y' / 'b'\nX <- .\n",
		"E <- ( ( E ) ) '+' T / T\nT <- [0-9]+\n",
		"E <- &'1' E '+' T / T\nT <- [0-9]+\n",
		"E <- 'a'? E '+' T / T\nT <- [0-9]+\n",
		"E <- ( E '+' T //{e} X //{f} X ) / T %{e}\nT <- [0-9]+\nX <- .\n",
		"S <- E !.\nE <- ( E '+' T / T ) //{e} ( X //{f} E )\nT <- [0-9]+ / %{f}\nX <- .\n",
		// rule names that are prefixes of each other followed by digits, with code
		// blocks at every expression index: generated identifiers built from
		// name + index meet (onA + 11 = onA1 + 1)
		"A <- " + strings.Repeat("&{ return true, nil } ", 14) + "'a' { return nil, nil }\nA1 <- 'b' { return nil, nil } / &{ return true, nil } 'c'\nA11 <- 'c' { return nil, nil }\nA2 <- #{ return nil } !{ return false, nil } 'd' { return nil, nil }\nA12 <- 'e' { return nil, nil }\n",
		// a cycle of rules that reach each other in leading position, one of them
		// with a later alternative that matches the empty string, in every order
		// of the names (analyses that iterate to a fixed point visit them by name)
		"Start <- Args\nArgs <- ArgList\nArgList <- Args ',' Arg / Arg?\nArg <- [a-z]+\n",
		"Start <- Zz\nZz <- Aa\nAa <- Zz ',' Mm / Mm?\nMm <- [a-z]+\n",
		"Start <- Bb\nBb <- Cc / 'x'?\nCc <- Aa 'y'\nAa <- Bb 'z' / Cc\n",
		// a recovery expression that is nothing but a reference to a small rule
		// which the same rule uses once more (food for the optimizer's book-keeping
		// of who uses whom)
		"Line <- k:Key WS ( '=' / %{noeq} ) WS Value? !. //{noeq} WS\nKey <- [a-z]+\nValue <- [0-9]+\nWS <- [ \\t]*\n",
		"A <- L 'x' ( 'y' / %{e} ) //{e} L\nL <- 'l'\nB <- A 'b'\n",
		// two cycles through one rule whose member names, written one after the
		// other, read the same (AB+C = A+BC): whatever identifies a set of rules by
		// its joined names takes the two cycles for one
		"Expr <- AB 'x' / A 'y' / 'e'\nAB <- C 'c'\nC <- Expr 'd'\nA <- BC 'a'\nBC <- Expr 'b'\n",
		"S <- AB 'x' / A 'y' / 's'\nAB <- CD 'c'\nCD <- S 'd'\nA <- BCD 'a'\nBCD <- S 'b'\n",
		// several left-recursive components that do not refer to each other: the
		// order in which an analysis meets them is not fixed by the grammar, and
		// whatever it carries over from one to the next shows
		"Start <- P1 'x' / Q1 'y'\nP1 <- P2 'a' / 'b'\nP2 <- P1 'c' / 'd'\nQ1 <- Q2 'a' / 'b'\nQ2 <- Q1 'c' / 'd'\n",
		"Start <- Mm / Aa / Zz\nMm <- Nn 'a' / 'm'\nNn <- Mm 'b' / 'n'\nAa <- Bb 'c' / Aa 'd' / 'a'\nBb <- Aa 'e' / 'b'\nZz <- Zz 'z' / Yy\nYy <- Zz 'y' / 'w'\n",
		// one label bound twice in a scope that has other labels too (the emitted
		// Go does not compile - the author's problem - but it is what it is, run
		// after run)
		"List <- a:Item sep:',' b:Item sep:';' c:Item { return nil, nil } / x:Item x:Item y:Item &{ return true, nil }\nItem <- [a-z]+\n",
		// rules that are nothing but another name for a rule, in a circle
		"Expr <- Term\nTerm <- Expr\n",
		"S <- E 'x' / 'y'\nE <- T\nT <- F\nF <- E\nG <- F\n",
		// a dense component: every cycle goes through Root, all but one through
		// Gate; hundreds of cycles, so that an analysis which looks at some of
		// them only looks at other ones from run to run
		denseHub(),
	}
	if len(shapes) != lrShapeCount {
		panic("lrShapeCount is out of date")
	}
	if i < 0 || i >= len(shapes) {
		i = r.intn(len(shapes))
	}
	g := shapes[i]
	if r.chance(1, 2) || strings.Contains(g, "{ return") {
		g = "{\npackage gen\n}\n" + g
	}
	if strings.HasPrefix(g, "Start <-") {
		return toolInput{Name: "nullcycle", Class: "genlr", Grammar: []byte(g), Rules: []string{"Start"}}
	}
	if r.chance(1, 3) && !strings.Contains(g, "A11") && strings.Contains(g, "E <-") {
		g = "Top <- 'k' E?\n" + g
	}
	name, rules := "lrrec", []string{"E", "T"}
	if strings.Contains(g, "Line <-") {
		name, rules = "recovref", []string{"Line", "Key"}
	} else if strings.HasPrefix(strings.TrimPrefix(g, "{\npackage gen\n}\n"), "A <- L") {
		name, rules = "recovref", []string{"A", "B"}
	}
	if strings.Contains(g, "A11") {
		name, rules = "digitnames", []string{"A", "A1"}
	}
	if strings.Contains(g, "Gate <- Root") {
		name, rules = "densehub", []string{"Root", "Gate"}
	}
	if strings.Contains(g, "Term <- Expr") || strings.Contains(g, "F <- E\n") {
		name, rules = "aliascycle", []string{"Expr", "S"}
	}
	if strings.HasPrefix(strings.TrimPrefix(g, "{\npackage gen\n}\n"), "List <- a:Item") {
		name, rules = "twicebound", []string{"List", "Item"}
	}
	if strings.Contains(g, "BC <-") || strings.Contains(g, "BCD <-") {
		name, rules = "joinednames", []string{"A", "AB"}
	}
	return toolInput{Name: name, Class: "genlr", Grammar: []byte(g), Rules: rules}
}

// genBig makes a grammar text of about the given size: a rule, a long stretch
// of comment lines and blank space, and a last rule that the first one needs.
// With broken set the text ends in a rule that is cut off, so the whole must
// be rejected - by whatever way it reaches the tool, and however much of it a
// buffer or a size limit holds at a time.
func genBig(r *rng, size int, broken bool) toolInput {
	var b strings.Builder
	b.WriteString("{\npackage gen\n}\nA <- 'a' B\n")
	line := "// " + strings.Repeat("padding ", 9) + "\n"
	for b.Len() < size {
		b.WriteString(line)
		if r.chance(1, 50) {
			b.WriteString("\n\t \n")
		}
	}
	b.WriteString("B <- 'b'\n")
	if broken {
		b.WriteString("Tail <- (\n")
	}
	in := toolInput{Name: fmt.Sprintf("big(%d)", size), Class: "big", Grammar: []byte(b.String()), Rules: []string{"A", "B"}}
	in.Flags = drawFlags(r, in.Rules, false)
	in.Flags = removeArgs(in.Flags, "-debug", 1)
	return in
}

// genManyErrors makes grammars in which the front-end meets many errors it
// can recover from and goes on: a file saved in another encoding (bytes that
// are not UTF-8 in comments, strings and code blocks), literals and classes
// with invalid escapes, inverted ranges. n says how many.
func genManyErrors(r *rng, n int) toolInput {
	var b strings.Builder
	b.WriteString("{\npackage gen\n}\n")
	kind := r.intn(4)
	for i := 0; i < n; i++ {
		switch kind {
		case 0: // Latin-1 text in comments
			b.WriteString("// r\xe8gle num\xe9ro " + fmt.Sprint(i) + " \xe0 v\xe9rifier\n")
			if i%8 == 0 {
				fmt.Fprintf(&b, "R%d <- 'a'\n", i)
			}
		case 1: // invalid escapes in literals
			fmt.Fprintf(&b, "R%d <- 'a\\q' \"b\\%c\"\n", i, "qzQ8!"[r.intn(5)])
		case 2: // classes: invalid escapes, inverted ranges, unknown Unicode classes
			fmt.Fprintf(&b, "R%d <- %s\n", i, r.pick([]string{"[\\q]", "[z-a]", "[\\p{Nope}]", "[a-\\q]", "[\\x1]"}))
		default: // Latin-1 bytes in strings and code blocks
			fmt.Fprintf(&b, "R%d <- 'caf\xe9' { return \"na\xefve\", nil }\n", i)
		}
	}
	b.WriteString("Last <- 'z'\n")
	in := toolInput{Name: fmt.Sprintf("manyerrs(%d,%d)", kind, n), Class: "manyerrs", Grammar: []byte(b.String()), Rules: []string{"R0", "Last"}}
	in.Flags = drawFlags(r, in.Rules, false)
	return in
}

// placementCount is the size of the placement matrix of genPlacement.
const placementCount = 4 * 10

// genPlacement enumerates small grammars in which one kind of code block
// occurs exactly once, inside one kind of enclosing expression (lookahead,
// repetition, option, alternative, label, recovery expression, ...): what the
// builder emits depends on which kinds of blocks a grammar contains, and it
// finds that out by walking the grammar.
func genPlacement(r *rng, i int) toolInput {
	items := []string{
		"#{ return nil } 'x'",
		"&{ return true, nil } 'x'",
		"!{ return false, nil } 'x'",
		"'x' { return nil, nil }",
	}
	containers := []string{
		"&( %s )", "!( %s )", "( %s )?", "( %s )*", "( %s )+", "( 'y' / %s )", "l:( %s )",
		"( 'y' //{e} ( %s ) )", "( %s //{e} 'y' )", "&( !( ( %s )? ) )",
	}
	i = i % placementCount
	item, cont := items[i%len(items)], containers[i/len(items)]
	g := "{\npackage gen\n}\nA <- " + fmt.Sprintf(cont, item) + " B\nB <- [a-z]+ %{e}?\n"
	if !strings.Contains(cont, "{e}") {
		g = strings.Replace(g, " %{e}?", "", 1)
	}
	in := toolInput{Name: "placement", Class: "gen", Grammar: []byte(g), Rules: []string{"A", "B"}}
	in.Flags = drawFlags(r, in.Rules, false)
	// the template drops the state machinery under -optimize-parser unless the
	// grammar has state blocks: that combination always, the others half the time
	if (i%len(items) == 0 || r.chance(1, 2)) && !contains(in.Flags, "-optimize-parser") {
		in.Flags = append(in.Flags, "-optimize-parser")
	}
	return in
}

// genOptShape draws grammars whose rules only become literals (or classes)
// after another rule was inlined into them, and which are used from several
// rules directly before a literal: the order in which the optimizer revisits
// the users decides how the merged terminals look.
func genOptShape(r *rng) toolInput {
	var b strings.Builder
	if r.chance(1, 2) {
		b.WriteString("{\npackage gen\n}\n")
	}
	words := []string{"alpha", "beta", "gamma", "delta", "eps", "zeta", "eta"}
	n := 2 + r.intn(5)
	var names []string
	for i := 0; i < n; i++ {
		names = append(names, fmt.Sprintf("K%d", i+1))
	}
	switch r.intn(3) {
	case 0:
		fmt.Fprintf(&b, "Start <- v:( %s ) !.\n", strings.Join(names, " / "))
	case 1:
		fmt.Fprintf(&b, "Start <- ( %s )+\n", strings.Join(names, " / "))
	default:
		fmt.Fprintf(&b, "Start <- %s\n", strings.Join(names, " "))
	}
	names = names[:0]
	for i := 0; i < n; i++ {
		nm := fmt.Sprintf("K%d", i+1)
		names = append(names, nm)
		w := words[i%len(words)]
		switch r.intn(4) {
		case 0:
			fmt.Fprintf(&b, "%s <- Sigil %q / Sigil %q\n", nm, w, w+"x")
		case 1:
			fmt.Fprintf(&b, "%s <- Sigil [%s] Sigil\n", nm, w[:2])
		default:
			fmt.Fprintf(&b, "%s <- Sigil %q\n", nm, w)
		}
	}
	depth := 1 + r.intn(3)
	prev := "Sigil"
	for d := 0; d < depth; d++ {
		next := fmt.Sprintf("At%d", d)
		fmt.Fprintf(&b, "%s <- %s\n", prev, next)
		prev = next
	}
	fmt.Fprintf(&b, "%s <- %s\n", prev, r.pick([]string{"\"@\"", "'#'", "[@#]", "\"@\"i", "\"\""}))
	return toolInput{Name: "optshape", Class: "gen", Grammar: []byte(b.String()), Rules: names}
}

// denseHub builds the dense left-recursive component described in
// genLRRecoveryN: Root <- N1; Ni refers to every later Nj and to Gate; Gate
// refers to Root; N1 also refers to Root directly.
func denseHub() string {
	var b strings.Builder
	b.WriteString("Root <- N1 'a' / 'r'\n")
	const n = 9
	for i := 1; i <= n; i++ {
		fmt.Fprintf(&b, "N%d <- ", i)
		for j := i + 1; j <= n; j++ {
			fmt.Fprintf(&b, "N%d 'n' / ", j)
		}
		b.WriteString("Gate 'g'")
		if i == 1 {
			b.WriteString(" / Root 'z'")
		}
		b.WriteString("\n")
	}
	b.WriteString("Gate <- Root 'q' / 'w'\n")
	return b.String()
}

#!/bin/sh
# placeholder until the framework exists
exit 0

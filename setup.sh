#!/bin/sh
# Build the framework from files on disk only (offline) and warm the Go build cache.
cd "$(dirname "$0")" || exit 1
export GOFLAGS=-mod=mod GOPROXY=off
unset GOTOOLCHAIN GOSUMDB GORACE
mkdir -p bin evidence replays
(cd sim && go build ./... && go build -race ./simrt ./simsync ./simmap ./kernel ./parsersim && go build -o ../bin/verif-check ./cmd/verif-check) || exit 1
# warm: the repository itself and the packages the simulated worlds link
(cd /repo && go build ./... ) || exit 1
echo "setup ok"

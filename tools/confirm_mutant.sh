#!/bin/sh
# confirm_mutant.sh <worktree> <mutant-dir>
# Confirms, in the given scratch worktree of /repo (never /repo itself), that a
# seeded change compiles, passes the repository test suite, and that its
# demonstration fails with the change and passes without it.
# Prints one line: CONFIRMED or REJECTED <reason>.
WT=$1; M=$2
export GOFLAGS=-mod=mod GOPROXY=off
unset GOTOOLCHAIN GOSUMDB
cd "$WT" || { echo "REJECTED no worktree"; exit 1; }
git checkout -q -- . 2>/dev/null
git apply --check "$M/patch.diff" 2>/dev/null || { echo "REJECTED patch does not apply"; exit 1; }
chmod +x "$M/demo/run.sh" 2>/dev/null
( sh "$M/demo/run.sh" "$WT" ) >"$M/confirm_demo_clean.log" 2>&1 || { echo "REJECTED demo fails on the unchanged tree"; exit 1; }
git apply "$M/patch.diff" || { echo "REJECTED apply"; exit 1; }
go build ./... >"$M/confirm_build.log" 2>&1 || { git checkout -q -- .; echo "REJECTED does not build"; exit 1; }
go test -vet=off -count=1 -timeout 25m ./... >"$M/confirm_tests.log" 2>&1 || { git checkout -q -- .; echo "REJECTED test suite fails"; exit 1; }
if ( sh "$M/demo/run.sh" "$WT" ) >"$M/confirm_demo_patched.log" 2>&1; then git checkout -q -- .; echo "REJECTED demo passes with the change"; exit 1; fi
git checkout -q -- .
git status --porcelain | grep -v '^??' >/dev/null && { echo "REJECTED worktree dirty"; exit 1; }
echo "CONFIRMED"

#!/bin/sh
# try_mutant.sh <seeded-dir> <property> [tier] [seed]
# Like run_mutant.sh but works on a throw-away worktree of /repo's HEAD, so
# several seeded changes can be tried at the same time. /repo and
# /verif/evidence are not touched. For exploration only; the recorded results
# in seeded/*/meta.json come from run_mutant.sh (the change applied to /repo).
# VERIF_BIN=<path> uses another driver binary than /verif/bin/verif-check.
D=$(cd "$1" && pwd); P=$2; T=${3:-quick}; S=${4:-1}
export GOFLAGS=-mod=mod GOPROXY=off
unset GOTOOLCHAIN GOSUMDB GORACE
WT=$(mktemp -d /tmp/mut/try-XXXXXX)
rmdir "$WT"
git -C /repo worktree add -q --detach "$WT" HEAD || { echo "BROKEN worktree"; exit 2; }
trap 'git -C /repo worktree remove --force "$WT" 2>/dev/null; rm -rf "$WT"' EXIT
git -C "$WT" apply "$D/patch.diff" || { echo "BROKEN patch does not apply"; exit 2; }
mkdir -p "$WT/_out"
VERIF_REPO=$WT VERIF_OUT=$WT/_out VERIF_SEED=$S ${VERIF_BIN:-/verif/bin/verif-check} "$P" "$T" > "$D/try_${P}_${T}_$S.log" 2>&1
rc=$?
cp "$WT/_out/evidence/$P.json" "$D/try_evidence_${P}_${T}_$S.json" 2>/dev/null
case $rc in
 1) echo "DETECTED $(basename $D) by $P $T seed=$S: $(grep -m1 -A1 '^VIOLATION' $D/try_${P}_${T}_$S.log | tail -1 | cut -c1-220)";;
 0) echo "MISSED   $(basename $D) by $P $T seed=$S";;
 *) echo "BROKEN   $(basename $D) by $P $T seed=$S rc=$rc: $(tail -2 $D/try_${P}_${T}_$S.log | cut -c1-300)";;
esac

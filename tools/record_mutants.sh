#!/bin/sh
# record_mutants.sh [tier]  — the official run: every seeded change is applied
# to /repo (git apply), the check of the property it targets is run, and the
# change is undone straight afterwards. Results go to seeded/RESULTS.txt.
T=${1:-quick}
cd /verif || exit 2
: > seeded/RESULTS_$T.txt
for d in seeded/C*-w*-*; do
  p=$(basename $d | cut -d- -f1)
  r=$(tools/run_mutant.sh $d $p $T 1 | head -3 | tr '\n' ' ' | cut -c1-400)
  case "$r" in MISSED*) r2=$(tools/run_mutant.sh $d $p $T 2 | head -3 | tr '\n' ' ' | cut -c1-400); r="$r | $r2";; esac
  echo "$r" | tee -a seeded/RESULTS_$T.txt
done
git -C /repo status --short

#!/bin/sh
# record_mutants.sh [tier] [wave]  — the official run: every seeded change (of
# the given wave, e.g. w8; all waves when omitted) is applied to /repo (git
# apply), the check of the property it targets is run, and the change is undone
# straight afterwards. Results go to seeded/RESULTS_<tier>.txt (lines of the
# changes that are run are replaced, the others stay).
T=${1:-quick}; W=${2:-}
cd /verif || exit 2
touch seeded/RESULTS_$T.txt
for d in seeded/C*-${W:-w*}-*; do
  p=$(basename $d | cut -d- -f1)
  r=$(tools/run_mutant.sh $d $p $T 1 | head -3 | tr '\n' ' ' | cut -c1-400)
  case "$r" in MISSED*) r2=$(tools/run_mutant.sh $d $p $T 2 | head -3 | tr '\n' ' ' | cut -c1-400); r="$r | $r2";; esac
  grep -v " $(basename $d) by $p " seeded/RESULTS_$T.txt > seeded/RESULTS_$T.tmp; mv seeded/RESULTS_$T.tmp seeded/RESULTS_$T.txt
  echo "$r" | tee -a seeded/RESULTS_$T.txt
done
git -C /repo status --short

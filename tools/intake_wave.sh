#!/bin/sh
# intake_wave.sh <property> <wave>   e.g. intake_wave.sh C05 w2
# Confirms the three seeded changes a sub-agent left in /tmp/mut/<prop>-<wave>/_out/{1,2,3}
# (builds, passes the repository tests, demo fails with / passes without), stores the
# confirmed ones under /verif/seeded/<prop>-<wave>-<n>/ and tries the property's quick
# check against each in a throw-away worktree.
P=$1; W=$2
WT=/tmp/mut/$P-$W
for n in 1 2 3; do
  M=$WT/_out/$n
  [ -f "$M/patch.diff" ] || { echo "$P-$W-$n: no patch"; continue; }
  r=$(/verif/tools/confirm_mutant.sh "$WT" "$M")
  echo "$P-$W-$n: $r"
  [ "$r" = "CONFIRMED" ] || continue
  D=/verif/seeded/$P-$W-$n
  mkdir -p "$D"
  cp "$M/patch.diff" "$D/"; rm -rf "$D/demo"; cp -r "$M/demo" "$D/"; cp "$M/README.md" "$D/AUTHOR_README.md" 2>/dev/null
  for s in 1 2; do /verif/tools/try_mutant.sh "$D" "$P" quick $s | cut -c1-500; done
done

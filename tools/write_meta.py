#!/usr/bin/env python3
"""Writes seeded/<id>/meta.json from the recorded results (seeded/RESULTS_*.txt)
and the hand-written summaries below."""
import json, os, re, glob

NEEDS = {
 "C05-w1-1": ("parseChoiceExpr clones the store once for all alternatives and copies it back without Clone()", "a Cloner value mutated in place in the 2nd or later alternative of a choice with >= 3 alternatives, that alternative failing, a later alternative reading the value"),
 "C05-w1-2": ("parseActionExpr returns early when the action returns an error, skipping restoreState", "an action block that writes to c.state AND returns a non-nil error, followed by a block that reads the store"),
 "C05-w1-3": ("parseRuleRecursiveLeader: the 'seed cannot grow' exit no longer restores the state of the abandoned attempt", "-support-left-recursion, a left-recursive rule whose final non-growing attempt runs a state block"),
 "C05-w2-1": ("cloneState returns nil for an empty store and restoreState(nil) returns early", "the store completely empty at a savepoint, the rolled-back expression or block adding the first key, a later block observing it"),
 "C05-w2-2": ("parseRuleRecursiveLeader: the state snapshot is hoisted out of the growth loop", "-support-left-recursion, state blocks reached inside a leader rule, state read after the rule returns"),
 "C05-w2-3": ("action and code-predicate blocks are wrapped in a shallow snapshot (no Clone())", "a Cloner value mutated in place by an action or predicate block, read by a later block"),
 "C11-w1-1": ("errList.dedupe keyed on (position, inner message) instead of the full message", "two code blocks in different rules whose matches start at the same offset returning the same message"),
 "C11-w1-2": ("parseRuleRecursiveLeader keeps a stale error count and truncates to it", "-support-left-recursion and a code block returning an error anywhere under a left-recursive rule"),
 "C11-w1-3": ("panic handler without a default branch", "a code block panicking with a value that is not an error, string or Stringer under Recover(true)"),
 "C11-w2-1": ("errors de-duplicated when recorded (per-parser set) while the leader rolls the list back", "left recursion, an error first raised in a discarded leader run, the same message recurring on the kept path"),
 "C11-w2-2": ("parseRule unwinds rstack in a defer, so the panic handler sees an empty rule stack", "a panic in a code block under Recover(true) and a look at the rule part of the final error"),
 "C11-w2-3": ("error prefix cached per parser, keyed by position only", "two consecutive errors at the same position from different rules"),
 "C13-w1-1": ("main continues after parse errors; the deferred exit(3) sits inside the build block", "-x together with a grammar whose parse errors are all recoverable"),
 "C13-w1-2": ("BasicLatinLookup guards on ToLower(rn) < 128 but indexes with rn", "-optimize-basic-latin, a class with the i suffix containing U+212A or U+0130"),
 "C13-w1-3": ("optimizer init skips self references, so a self-recursive rule is inlined into itself", "-optimize-grammar and a directly self-recursive rule whose other references are leaf rules"),
 "C13-w2-1": ("cloneExpr no longer copies code-predicate/state nodes, so inlined copies share FuncIx", "-optimize-grammar, a leaf rule with a code predicate or state block referenced from two surviving rules; tool exits 0, output refers to an undefined method"),
 "C13-w2-2": ("unicode.SimpleFold in BasicLatinLookup", "-optimize-basic-latin, a class with i containing lower-case k or s (alone or in a range)"),
 "C13-w2-3": ("-o file opened without O_TRUNC", "an existing, longer file at the -o path"),
 "C16-w1-1": ("budget check moved into a template region that -optimize-parser drops", "a parser generated with -optimize-parser"),
 "C16-w1-2": ("countdown budget computed as maxExprCnt - ExprCnt at parser creation (unsigned underflow)", "a Stats value reused from an earlier parse whose count exceeds the budget"),
 "C16-w1-3": ("package-level default Stats reset by every newParser", "no Statistics option plus a re-entrant Parse from a code block (or a concurrent one)"),
 "C16-w2-1": ("the leader rolls the Stats struct (ExprCnt) back with the abandoned attempt", "-support-left-recursion and a budget between the rolled-back and the real count"),
 "C16-w2-2": ("repetitions of terminals matched in a tight loop, budget charged once afterwards", "a repetition whose body is directly a terminal: overshoot on long runs, hang on \"\"*"),
 "C16-w2-3": ("errList.add drops errors beyond 100 raw entries, including the budget error", "invalid UTF-8 re-read by a non-consuming loop at least 100 times, AllowInvalidUTF8(false)"),
 "C18-w1-1": ("package-level map cache of choice statistics keys filled lazily", "two overlapping parses, one evaluating a choice not yet evaluated in this process (cold cache), non-optimized parser"),
 "C18-w1-2": ("parseStateCodeExpr clones, defers Discard and restores on error: a map is Put while in use", "a state block returning an error in one parse while other parses run"),
 "C18-w1-3": ("ParseReader reads into a pooled buffer", "ParseReader/ParseFile, results holding raw matched bytes, another ParseReader call while the result is in use"),
 "C18-w2-1": ("ParseReader recycles its read buffer through a sync.Pool", "as C18-w1-3"),
 "C18-w2-2": ("state store released both in a deferred call and in the panic handler (double Put)", "an earlier parse that panicked and was recovered, then parses that backtrack"),
 "C18-w2-3": ("statistics key of a choice cached on the shared grammar node", "the Statistics option on at least two calls; unsynchronised write to the package-level grammar"),
 "C19-w1-1": ("findLeader breaks ties with case-folded names", "-support-left-recursion, an SCC with two leader candidates whose names differ only by case"),
 "C19-w1-2": ("Rule.NullableVisit memoises provisional results", "map order of ComputeNullables (NEUTRALISED on the current tree: fix da25773 visits rules in sorted order, the author's demonstration passes with the change applied to HEAD)"),
 "C19-w1-3": ("rendered static code cached in a package-level map keyed on the wrong field", "several builds in one process over grammars that differ in left-recursiveness"),
 "C19-w2-1": ("ComputeNullables sorts rules by source line only", "two rules on one source line inside a nullability cycle, -support-left-recursion"),
 "C19-w2-2": ("RuleRefExpr.NullableVisit short-cuts on a Nullable flag left on the AST by an earlier build", "the same grammar value built twice in one process (library use), a nullability cycle, SupportLeftRecursion(true)"),
 "C19-w2-3": ("cleanupCharClassMatcher deduplicates through a map and ranges over it", "-optimize-grammar and a merged class that really contains a duplicate member"),
 "C05-w3-1": ("parseThrowExpr takes one state snapshot and restores it after every failed recovery expression (a clone restored twice)", "throw/recover with state blocks, at least two nested handlers for one label whose two innermost recovery expressions both fail"),
 "C05-w3-2": ("only the outermost lookahead predicate snapshots the state", "an & nested inside & or !, the inner expression matching and changing state, a block reading the state while still inside the outer predicate"),
 "C05-w3-3": ("no snapshot for an empty state store (cloneState returns nil, restoreState(nil) returns)", "the store empty at the backtrack point (no InitState, e.g. an alternate Entrypoint that skips the seeding block)"),
 "C11-w3-1": ("errList.dedupe keeps the last occurrence instead of the first", "an E1, E2, E1 pattern: a failing block in an alternative that is abandoned, another error, the same block again at the same position; Memoize(false)"),
 "C11-w3-2": ("parseThrowExpr evaluates the recovery expression on an aliased, truncated recovery stack", "a recovery expression that itself enters a nested recovery operator, then a second throw of the same label (breaks C14 first: handlers are lost; the C11 checks see it as an unclaimed divergence from the model)"),
 "C11-w3-3": ("addErrAt returns early when the last error has the same position and inner message, ignoring the rule", "the same error text from two different rules at the same position, recorded consecutively"),
 "C13-w3-1": ("BasicLatinLookup walks the full unicode.SimpleFold orbit", "-optimize-basic-latin, an ignore-case class containing k or s (also inside a range)"),
 "C13-w3-2": ("optimizer refuses to inline protected rules after setting r.optimized = true: the fix-point loop never ends", "-optimize-grammar plus a protected leaf rule (first rule or -alternate-entrypoints) referenced by a surviving rule"),
 "C13-w3-3": ("a template comment refers to a field (.Optimized) that does not exist", "-support-left-recursion and -nolint together on a left-recursive grammar: text/template fails at execution, the builder panics"),
 "C16-w3-1": ("leaf-matcher fast path in the optimized repetition loops without the budget comparison", "-optimize-parser and * or + directly over an empty literal"),
 "C16-w3-2": ("error list capped at ten entries, which also drops the budget error", "non-UTF-8 input with at least ten invalid-encoding errors before the budget runs out, AllowInvalidUTF8(false)"),
 "C16-w3-3": ("memoised rule replays charged to the budget with >= instead of >", "Memoize(true), a budget exactly equal to the expressions needed, the last unit of work being a memoised rule replay"),
 "C18-w3-1": ("rules table lazily initialised at package level and published before it is filled", "two goroutines in their first Parse of the process at once (cold start)"),
 "C18-w3-2": ("one-entry lookup cache for Unicode-class searches in the shared matcher node", "a \\p{..} class, non-ASCII input reaching the class search, concurrent parses with runes of different membership"),
 "C18-w3-3": ("statistics key of a choice cached per node in a sync.Map although it contains the rule on top of the rule stack", "Statistics option, a choice inside a recovery expression, the same label thrown from two different rules by different parses; only Stats.ChoiceAltCnt keys differ"),
 "C19-w3-1": ("cleanupCharClassMatcher rebuilds UnicodeClasses by ranging over a set when there is a duplicate", "-optimize-grammar, a merged class with a duplicated \\p class and at least two distinct classes"),
 "C19-w3-2": ("removing a dead rule releases only one (map order) of the rules it referenced", "-optimize-grammar, a dead rule referencing at least two rules one of which is used by nothing else"),
 "C19-w3-3": ("the re-entry guard of Rule.NullableVisit returns the Nullable flag left by a previous build", "the same AST built more than once in one process, -support-left-recursion, a directly left-recursive rule nullable through a later alternative"),
 "C05-w6-1": ("parseNotExpr restores the state only when (after negation) the predicate matched", "a ! predicate whose operand contains a state block and matches, directly under ? or * (nothing else restores)"),
 "C05-w6-2": ("snapshot maps recycled through an unsynchronised package-level free list", "concurrent parses only: reported by C18 (data race under the simulated schedule), not by C05, whose runs are sequential"),
 "C05-w6-3": ("restoreState restores in place and misses deleted keys", "a key that exists before, deleted inside a region that is then backtracked"),
 "C11-w6-1": ("ParseReader's own read loop takes (0, error) for end of input", "a reader failing with zero bytes and a non-EOF error: outside what C11 states (code-block errors and panics; read errors of ParseReader belong to no claimed property)"),
 "C11-w6-2": ("errList.err() sorts the errors by source offset", "two errors where the later-recorded one sits at a smaller offset"),
 "C11-w6-3": ("Recover(false) re-panics with a normalised error instead of the original value", "Recover(false) and a block panicking with a non-error value"),
 "C13-w6-1": ("exit statuses come from a table; the final write's key is mistyped", "a write error on the final write of the formatted parser"),
 "C13-w6-2": ("skipping a byte order mark indexes past a short Peek", "a grammar that is exactly EF or EF BB"),
 "C13-w6-3": ("the left-recursion diagnostic dereferences a reference it did not find under a recovery expression", "left recursion, no -support-left-recursion, the recursive reference under //{...}"),
 "C16-w6-1": ("repetitions raise the budget error at the first iteration that consumed nothing", "a budget, a * or + whose body matches empty, and a loop that still ends because its body asks user code"),
 "C16-w6-2": ("memo replay rewinds the expression counter", "Memoize(true), backtracking to a memoised prefix, a budget between the largest stretch and the total"),
 "C16-w6-3": ("the budget is made relative to a pre-used Stats counter with an unchecked addition", "a reused Stats value and a budget within its count of 2^64"),
 "C18-w6-1": ("memo tables recycled through a pool, emptied only on the normal path", "a memoising parse that ends by panic or budget exhaustion, then another memoising parse"),
 "C18-w6-2": ("pooled error lists plus an early return in dedupe for fewer than two errors", "a call failing with exactly one error, kept unrendered, then another failing parse"),
 "C18-w6-3": ("the error prefix is built in a package-level scratch buffer", "two overlapping parses that are both recording errors"),
 "C19-w6-1": ("findLeader stops enumerating cycles once a start removes no candidate", "-support-left-recursion, an SCC of three rules with several cycles, the unlucky map order"),
 "C19-w6-2": ("the static-code template is rendered in a goroutine that reads b.globalState while the rules are still being emitted", "-optimize-parser, a state block, and the schedule (task seam of the tool world)"),
 "C19-w6-3": ("goimports runs in a goroutine under a 10 s time.After deadline", "the deadline passing before the goroutine is done (simulated clock of the task seam)"),
 "C05-w5-1": ("-optimize-parser drops the snapshot around action and predicate blocks", "-optimize-parser, a grammar with a state block, an action or predicate block writing to c.state"),
 "C05-w5-2": ("parseZeroOrOneExpr restores the state when the operand's value is nil", "a state block inside a ? operand that matches with a nil value (a bare state block, or an action returning nil)"),
 "C05-w5-3": ("cloneState copies the map shallowly until a Cloner has been seen, and looks for one only when the key count changes", "no Cloner via InitState, a state block replacing an existing non-Cloner value by a Cloner, later mutated in place inside something that fails"),
 "C11-w5-1": ("(*parserError).Error uses the prefix as a format string", "a file name or display name containing a percent sign"),
 "C11-w5-2": ("the panic handler calls String() on a Stringer panic value directly", "a block panicking with a fmt.Stringer whose String method itself panics, Recover(true)"),
 "C11-w5-3": ("addErrAt passes a nested error list through unprefixed", "a block returning, unchanged, the error list of a nested parse of the same package"),
 "C13-w5-1": ("the front-end accepts long Unicode category names that the builder and runtime do not know", "[\\p{Letter}] and similar alias names, with -optimize-basic-latin (Go panic trace, exit 2)"),
 "C13-w5-2": ("a goimports failure is forgotten when the parser goes to stdout", "a code block that is not valid Go, output on stdout"),
 "C13-w5-3": ("SeqExpr.NullableVisit visits every item: nullability analysis becomes exponential in the depth of rule chains", "sequences with two references to the next rule, chained 30+ deep over a non-nullable base (the logical-time bound; a nullable base is F7 on the pinned tree)"),
 "C16-w5-1": ("the budget limit lives in Stats, which the Statistics option replaces", "MaxExpressions before Statistics in the option list, or a reused Stats value"),
 "C16-w5-2": ("the panic handler reports a panic only when no earlier error exists", "an ordinary error recorded first, the budget running out later"),
 "C16-w5-3": ("code blocks are dispatched around parseExpr, so they are not counted", "non-optimized parser, a repetition whose body is only a predicate or state block"),
 "C18-w5-1": ("Unicode classes resolved at match time through an unsynchronised package-level cache", "a grammar with \\p classes, a rune reaching the class list, the first parses of the process overlapping (most parsers of class-free grammars no longer compile with this change; they are left out loudly)"),
 "C18-w5-2": ("parser defaults copied from a package-level template whose maxFailExpected slice has spare capacity", "two overlapping parses, one failing with 'no match found, expected: ...'"),
 "C18-w5-3": ("the Stats value goes through a sync.Pool, the caller's too", "a parse with Statistics, then any parse drawing that object"),
 "C19-w5-1": ("BuildParser assembles the output in a pooled buffer that is not reset when the build fails", "library use: a build into a failing writer, then another build in the same process"),
 "C19-w5-2": ("FuncIx stays on the AST; the builder remembers what it rendered", "library use: build, then ast.Optimize, then build the same grammar value"),
 "C19-w5-3": ("with -optimize-parser a grammar-specific rangeTable switch is emitted in map order", "-optimize-parser and two or more distinct \\p classes"),
 "C05-w4-1": ("parseSeqExpr returns early, without restoreState, when the sequence did not advance", "a state block before the sequence consumes anything, the next element failing, the sequence under * + or ? (not a choice alternative)"),
 "C05-w4-2": ("a successful sequence puts its snapshot back into the pool without clearing it", "a key created by a state block, a sequence succeeding while it exists, the enclosing expression failing, a later failing expression restoring the polluted snapshot"),
 "C05-w4-3": ("the builder marks which sequences need a snapshot and does not see state changes reached through a throw", "a state change made inside a recovery expression (doc.go makes the grammar author responsible for state during recovery operations: outside what C05 demands; generated recovery expressions contain no state blocks)"),
 "C11-w4-1": ("& and ! lookahead roll the error list back", "a code block returning an error while it is reached only inside the operand of & or !"),
 "C11-w4-2": ("a code predicate that returns an error never matches", "&{ return true, err } or !{ return false, err } used as a warning"),
 "C11-w4-3": ("ParseReader has a function-level recover", "Recover(false), ParseReader/ParseFile, a block that panics"),
 "C13-w4-1": ("writeFunc strips the line breaks of a code block under one length check", "a code block written as { newline }"),
 "C13-w4-2": ("cleanupCharClassMatcher dedupes Ranges rune by rune", "-optimize-grammar and a merged class with a repeated range endpoint, e.g. [a-z] / [0-9a-f]"),
 "C13-w4-3": ("newParser allocates the state map only when the grammar has state blocks, InitState keeps the old guard", "non-optimized parser, grammar without state blocks, caller passes InitState: panic in generated parsers (the tool itself still exits 0; reported by C11 as twin-panicked)"),
 "C16-w4-1": ("budget exhaustion becomes an ordinary failure recorded once, which the left-recursion leader rolls back", "-support-left-recursion, the budget running out inside a seed or growth attempt"),
 "C16-w4-2": ("parseRuleRefExpr chases forwarding rules in an uncounted loop", "a cycle of pure forwarding rules (accepted only with -support-left-recursion) reached by the input"),
 "C16-w4-3": ("the MaxExpressions option swaps its captured value with the parser's", "one Option value applied to a second parser"),
 "C18-w4-1": ("Discard puts the map into the pool before clearing it", "state blocks and two concurrent parses, one taking the map between Put and clear"),
 "C18-w4-2": ("parsers are pooled and keep their stacks", "a call that panics inside a recovery expression or rule, then another call getting that parser"),
 "C18-w4-3": ("the Debug trace goes through one shared bufio.Writer", "Debug(true) in two overlapping calls, non-optimized parser"),
 "C19-w4-1": ("reduceGraph reduces the first-graph in place", "-support-left-recursion, a mutual left-recursion group and an independent directly left-recursive rule"),
 "C19-w4-2": ("terminals share one package-level empty InitialNames set which RecoveryExpr extends in place", "a recovery expression whose guarded expression is a bare terminal, another terminal-led rule, the unlucky map order"),
 "C19-w4-3": ("-o file opened without O_TRUNC", "a longer file already at the -o path"),
}

results = {}
for f in sorted(glob.glob('/verif/seeded/RESULTS_*.txt')):
    tier = re.search(r'RESULTS_(\w+)\.txt', f).group(1)
    for line in open(f):
        for part in line.split(' | '):
            m = re.match(r'\s*(DETECTED|MISSED|BROKEN)\s+(\S+) by (\S+) (\w+) seed=(\d+)(?::\s*(.*))?', part.strip())
            if m:
                st, mid, prop, t, seed, rest = m.groups()
                cls = ''
                if rest:
                    c = re.search(r'class=(\S+)', rest)
                    cls = c.group(1) if c else ''
                results.setdefault(mid, []).append({"check": prop, "tier": t, "seed": int(seed), "result": st.lower(), "class": cls})

for d in sorted(glob.glob('/verif/seeded/C*-w*-*')):
    mid = os.path.basename(d)
    what, needs = NEEDS.get(mid, ("", ""))
    res = results.get(mid, [])
    meta = {
        "id": mid,
        "property": mid.split('-')[0],
        "wave": mid.split('-')[1],
        "change": what,
        "needs_to_manifest": needs,
        "confirmed": "tools/confirm_mutant.sh in the author's scratch worktree: patch applies, go build ./... ok, repository test suite passes with the change, demo/run.sh fails with the change and passes without it",
        "how_run": "tools/run_mutant.sh <dir> <property> <tier> <seed>: git -C /repo apply patch.diff; ./check <property> <tier>; git -C /repo checkout -- .",
        "results": res,
        "detected": any(r["result"] == "detected" for r in res),
    }
    json.dump(meta, open(os.path.join(d, 'meta.json'), 'w'), indent=1)
    print(mid, "detected" if meta["detected"] else "MISSED", [(r["tier"], r["seed"], r["result"]) for r in res])

#!/bin/sh
# try_replay.sh <seeded-dir> <property> [seed]
# Like try_mutant.sh (throw-away worktree, quick tier), and then replays every
# replay file the check wrote, in a fresh process against the same changed
# tree: each must reproduce its violation (exit 1). VERIF_BIN as in try_mutant.sh.
D=$(cd "$1" && pwd); P=$2; S=${3:-1}
export GOFLAGS=-mod=mod GOPROXY=off
unset GOTOOLCHAIN GOSUMDB GORACE
BIN=${VERIF_BIN:-/verif/bin/verif-check}
WT=$(mktemp -d /tmp/mut/rpl-XXXXXX); rmdir "$WT"
git -C /repo worktree add -q --detach "$WT" HEAD || { echo "BROKEN worktree"; exit 2; }
trap 'git -C /repo worktree remove --force "$WT" 2>/dev/null; rm -rf "$WT"' EXIT
git -C "$WT" apply "$D/patch.diff" || { echo "BROKEN patch does not apply"; exit 2; }
mkdir -p "$WT/_out"
VERIF_REPO=$WT VERIF_OUT=$WT/_out VERIF_SEED=$S $BIN "$P" quick > "$WT/_out/run.log" 2>&1
echo "$(basename $D) $P: check rc=$?"
for f in $(grep -o 'replay=[^ ]*' "$WT/_out/run.log" | cut -d= -f2 | sort -u); do
  VERIF_REPO=$WT VERIF_OUT=$WT/_out $BIN replay "$f" > "$WT/_out/replay.log" 2>&1
  echo "  replay $(basename $f): rc=$? $(grep -m1 -E 'VIOLATION|REPRODUCED|not reproduced|class=' $WT/_out/replay.log | cut -c1-160)"
done

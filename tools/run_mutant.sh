#!/bin/sh
# run_mutant.sh <seeded-dir> <property> [tier] [seed]
# Applies a seeded change to /repo's working tree, runs one check against it and
# undoes the change straight afterwards. Prints DETECTED / MISSED / BROKEN.
D=$(cd "$1" && pwd); P=$2; T=${3:-quick}; S=${4:-1}
cd /verif || exit 2
git -C /repo diff --quiet || { echo "BROKEN /repo working tree is not clean"; exit 2; }
git -C /repo apply "$D/patch.diff" || { echo "BROKEN patch does not apply"; exit 2; }
VERIF_SEED=$S ./check "$P" "$T" > "$D/check_$P.log" 2>&1
rc=$?
git -C /repo checkout -- .
git -C /repo diff --quiet || echo "WARNING: /repo still dirty"
case $rc in
 1) echo "DETECTED $(basename $D) by $P $T seed=$S: $(grep -m1 -A1 '^VIOLATION' $D/check_$P.log | tail -1 | cut -c1-220)";;
 0) echo "MISSED   $(basename $D) by $P $T seed=$S";;
 *) echo "BROKEN   $(basename $D) by $P $T seed=$S rc=$rc: $(tail -2 $D/check_$P.log | cut -c1-300)";;
esac

#!/usr/bin/env python3
"""Replaces the table between the SEEDED-TABLE markers of DESIGN.md by the output of seeded_table.py."""
import subprocess
p = '/verif/DESIGN.md'
s = open(p).read()
a = s.index('<!-- SEEDED-TABLE-BEGIN -->') + len('<!-- SEEDED-TABLE-BEGIN -->\n')
b = s.index('<!-- SEEDED-TABLE-END -->')
t = subprocess.run(['python3', '/verif/tools/seeded_table.py'], capture_output=True, text=True, check=True).stdout
open(p, 'w').write(s[:a] + t + s[b:])
print("table rows:", t.count('\n') - 2)

#!/usr/bin/env python3
"""Prints the markdown table of seeded changes for DESIGN.md from seeded/*/meta.json."""
import json, glob, os
rows = []
for f in sorted(glob.glob('/verif/seeded/C*-w*-*/meta.json')):
    m = json.load(open(f))
    det = [r for r in m.get('results', []) if r['result'] == 'detected']
    if det:
        best = sorted(det, key=lambda r: (r['tier'] != 'quick', r['seed']))[0]
        seeds = sorted({(r['tier'], r['seed']) for r in det})
        missed = sorted({(r['tier'], r['seed']) for r in m['results'] if r['result'] == 'missed'})
        res = "%s %s: `%s`" % (best['check'], best['tier'], best['class'])
        if missed:
            res += " (missed with " + ", ".join("%s seed %d" % x for x in missed) + ")"
    else:
        res = m.get('note', 'not detected')
    rows.append("| %s | %s | %s | %s |" % (m['id'], m['change'], m['needs_to_manifest'], res))
print("| id | change | needs | caught by |")
print("|----|--------|-------|-----------|")
print("\n".join(rows))

#!/bin/sh
# try_benign.sh <patch.diff> [checks...]
# Applies a behaviour-preserving refactoring to a throw-away worktree of /repo's
# HEAD and runs the quick checks against it. Every check must exit 0: anything
# else is a false alarm (exit 1) or a harness that knows too much (exit 2).
PATCH=$(cd "$(dirname "$1")" && pwd)/$(basename "$1"); shift
CHECKS=${*:-"C05 C11 C13 C16 C18 C19"}
export GOFLAGS=-mod=mod GOPROXY=off
unset GOTOOLCHAIN GOSUMDB GORACE
WT=$(mktemp -d /tmp/mut/ben-XXXXXX); rmdir "$WT"
git -C /repo worktree add -q --detach "$WT" HEAD || { echo "BROKEN worktree"; exit 2; }
trap 'git -C /repo worktree remove --force "$WT" 2>/dev/null; rm -rf "$WT"' EXIT
git -C "$WT" apply "$PATCH" || { echo "BROKEN patch does not apply"; exit 2; }
mkdir -p "$WT/_out"
for p in $CHECKS; do
  VERIF_REPO=$WT VERIF_OUT=$WT/_out VERIF_SEED=1 /verif/bin/verif-check "$p" quick > "$WT/_out/$p.log" 2>&1
  rc=$?
  if [ $rc -eq 0 ]; then echo "  $p ok"; else echo "  $p FALSE ALARM rc=$rc: $(grep -E 'VIOLATION|class=|HARNESS' "$WT/_out/$p.log" | head -3 | cut -c1-400)"; fi
done
